#!/usr/bin/env python3
"""Regenerate MANIFEST.json from the table below (run after adding a property check)."""
import json
from pathlib import Path

VERIF = Path(__file__).resolve().parent.parent
props = [json.loads(l)["id"] for l in (VERIF / "properties.jsonl").read_text().splitlines() if l.strip()]

LEVEL_NOTE_COMMON = (
    "Trusted base: Lean 4.33 kernel; axioms ⊆ {propext, Classical.choice, Quot.sound} (audited each run; no sorry, "
    "native_decide, bv_decide or own axioms); the hand-written model lean/AsphaltModel and the Python harness "
    "(generators, directors, virtual clocks, canonicalisation, monitors, JSON glue in Driver.lean). The theorems are "
    "about the model; the model is tied to /repo's working tree on every run only by the correspondence cases of that "
    "run (differential testing, bounded by the generators). "
)

# property -> (claim text, partial clauses / what is implementation-side only, design ref)
CLAIMS = {
    "C14": (
        "Theorems C14_root_inv / C14_children_inv (what every constructor receives and in which order), C14_child_config / "
        "C14_child_order / C14_no_external (hard-coded add_component kwargs deep-merged with and overridden by the external "
        "configuration, config-only children created, via C17), C14_type_* / C14_type_equiv (class, reference and "
        "entry-point spellings of a type are interchangeable; default from the alias), C14_alias_* and C14_publish_* "
        "(kind/name aliases; default remapped in start() only) hold for all class tables and configuration trees about the "
        "Lean function `initTree`; the correspondence starts generated component trees on the real start_component() and "
        "requires the same constructor order, kwargs, published resource names and errors.",
        "Partial: 'leaves the configuration object unmodified' and 'equal configurations give equal trees' are object "
        "mutation / determinism facts decided on the implementation only (deep snapshot, second start with the same object). "
        "Type resolution (import_module, importlib.metadata entry points) is a parameter of the model.",
        "8/C14",
    ),
    "C16": (
        "Theorems C16_no_services / C16_named / C16_only / C16_default / C16_option_over_env / C16_env_fallback (the selection "
        "ladder as a decision table), C16_files_lookup / C16_later_file_* / C16_set_get / C16_set_frame / C16_set_not_mapping / "
        "C16_service_lookup / C16_component_is_default_service / C16_extract / C16_pipeline (precedence: later file > earlier "
        "file, --set > files, service section > top level, via C17), C16_split_roundtrip (dots split keys unless escaped) and "
        "C16_error_starts_nothing hold for all file lists, override lists and service layouts about the Lean function "
        "`cliConfig`; the correspondence runs the real click command in-process with run_application replaced by a recorder "
        "and requires the same arguments or the same error.",
        "Partial: YAML parsing (incl. !Env/!TextFile/!BinaryFile), click and os.environ are implementation-side only; the "
        "model receives the parsed documents. Layouts with both a top-level component and services are compared with the "
        "model but not judged against the statement.",
        "8/C16",
    ),
    "C17": (
        "Theorems C17_lookup / C17_keys / C17_mem_keys / C17_wf / C17_none_* state the right-biased deep merge for all "
        "pairs of nested dictionaries (unbounded depth and width) about the Lean function `merge`; the correspondence "
        "runs merge_config and `merge` on the same generated pairs and requires identical results (order included).",
        "Partial: 'neither argument is modified' and 'returns a new dict' are object-identity facts a pure model "
        "cannot express; they are decided on the implementation only (deep snapshot before/after on every case).",
        "8/C17",
    ),
}

checks = []
for pid in props:
    if pid not in CLAIMS:
        continue
    text, partial, ref = CLAIMS[pid]
    checks.append({
        "property_id": pid,
        "quick_cmd": f"./check {pid} --tier quick",
        "thorough_cmd": f"./check {pid} --tier thorough",
        "evidence_file": f"evidence/{pid}.json",
        "replay_cmd_template": f"./check {pid} --replay {{path}}",
        "engine": "lean4-model+correspondence",
        "level_claimed": {"category": "proof", "text": text, "design_ref": f"DESIGN.md section {ref}"},
        "level_note": LEVEL_NOTE_COMMON + partial,
        "technique": "machine-checked proof in Lean 4 about a hand-written executable model, tied to the code by a differential correspondence check (model vs real asphalt on generated cases) with direct property monitors",
    })

manifest = {
    "version": 1,
    "setup_cmd": "cd lean && lake build",
    "hooks": {
        "guard": "ASPHALT_VERIF",
        "enable": "no source hooks are needed: every observation goes through asphalt's public API and harness-supplied user code; ./check sets ASPHALT_VERIF=1 and puts /repo/src first on PYTHONPATH",
        "baseline_off_cmd": "cd /repo && /venv/bin/python -m pytest -ra -q -p no:cacheprovider --timeout=900 --continue-on-collection-errors",
        "source_commits": [],
        "add_only": True,
    },
    "engines": [{
        "name": "lean4-model+correspondence",
        "path": "lean/ (model, proofs, driver) + harness/ (Python correspondence harness) + check",
        "serves_properties": [c["property_id"] for c in checks],
        "kind_free_text": "Lean 4 theorems about an executable model; JSON-lines driver compared against the real implementation",
    }],
    "checks": checks,
    "notes": "fix: commits in /repo repair defects D1-D7, D9 found by this machinery (see known_findings.json, DESIGN.md section 9). D8 is a known finding.",
    "not_applicable": [
        {"property_id": p, "reason": "check not built yet (work in progress, DESIGN.md section 13 build order); will be claimed at level proof"}
        for p in props if p not in CLAIMS
    ],
}
(VERIF / "MANIFEST.json").write_text(json.dumps(manifest, indent=1, ensure_ascii=False) + "\n")
print("checks:", [c["property_id"] for c in checks])
