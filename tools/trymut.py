#!/usr/bin/env python3
"""Dev tool: apply a textual mutation to /repo, run the unit tests and given checks, revert.
usage: trymut.py <file> <old> <new> <check> [<check>...]"""
import subprocess, sys
f, old, new, *checks = sys.argv[1:]
p = "/repo/" + f
s = open(p).read()
assert s.count(old) >= 1, "pattern not found"
open(p, "w").write(s.replace(old, new, 1))
try:
    r = subprocess.run("cd /repo && /venv/bin/python -m pytest -q -p no:cacheprovider -x --timeout=900 2>&1 | tail -1", shell=True, capture_output=True, text=True)
    print("tests:", r.stdout.strip().splitlines()[-1])
    for c in checks:
        r = subprocess.run(f"cd /verif && ./check {c} --no-lean 2>&1 | grep -v conda | tail -1", shell=True, capture_output=True, text=True)
        print(c, "=>", r.stdout.strip())
finally:
    subprocess.run("cd /repo && git checkout -- .", shell=True)
