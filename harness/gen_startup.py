"""Seeded generator of component start-up programs (C05, C06, C07, C15)."""

from __future__ import annotations

import random
from typing import Any

NT = 4
DELAYS = [0, 0, 1, 1, 2, 3, 5]


class ProgGen:
    def __init__(self, rng: random.Random, *, max_nodes: int = 10, max_depth: int = 4, max_fan: int = 4,
                 p_await: float = 0.35, p_fail: float = 0.0, p_timeout: float = 0.0, p_burst: float = 0.0,
                 p_stuck: float = 0.08, p_factory: float = 0.15, p_opt: float = 0.1, p_delay_pub: float = 0.0, min_nodes: int = 1,
                 p_act_await: float = 0.2) -> None:
        self.rng = rng
        self.max_nodes = max_nodes
        self.max_depth = max_depth
        self.max_fan = max_fan
        self.p_await = p_await
        self.p_fail = p_fail
        self.p_timeout = p_timeout
        self.p_burst = p_burst
        self.p_stuck = p_stuck
        self.p_factory = p_factory
        self.p_opt = p_opt
        self.p_delay_pub = p_delay_pub
        self.min_nodes = min_nodes
        self.p_act_await = p_act_await
        self.prog: list[dict[str, Any]] = []
        self.keys: list[tuple[int, str, int]] = []     # (ty, final name, publisher)
        self.used: set[tuple[int, str]] = set()
        self.n_res = 0
        self.n_td = 0

    # ------------------------------------------------------------------ structure
    def tree(self) -> None:
        rng = self.rng
        budget = rng.randint(min(self.min_nodes, self.max_nodes), self.max_nodes)

        def node(parent: int | None, depth: int, path: str) -> int:
            i = len(self.prog)
            alias = path.rsplit(".", 1)[-1]
            dflt = alias.split("/", 1)[1] if "/" in alias else "default"
            spec = {"path": path, "parent": parent, "cls": i, "ctorFails": False, "dflt": dflt,
                    "prepare": [] if rng.random() < 0.6 else None, "start": [] if rng.random() < 0.7 else None,
                    "children": []}
            self.prog.append(spec)
            if depth < self.max_depth:
                for _ in range(rng.randint(0, self.max_fan)):
                    if len(self.prog) >= budget:
                        break
                    j = len(self.prog)
                    al = f"c{j}" + (f"/n{j}" if rng.random() < 0.4 else "")
                    child_path = f"{path}.{al}" if path else al
                    spec["children"].append(node(i, depth + 1, child_path))
            return i

        node(None, 0, "")
        tries = 0
        while len(self.prog) < min(self.min_nodes, budget) and tries < 20:
            tries += 1
            self.prog.clear()
            node(None, 0, "")

    def final_name(self, spec: dict[str, Any], phase: str, name: str) -> str:
        return spec["dflt"] if name == "default" and phase == "start" else name

    def gen_publish(self, i: int, phase: str) -> dict[str, Any] | None:
        rng = self.rng
        spec = self.prog[i]
        ty = rng.randrange(NT)
        name = "default" if rng.random() < 0.3 else f"r{self.n_res}"
        fin = self.final_name(spec, phase, name)
        if (ty, fin) in self.used:
            name = f"r{self.n_res}"
            fin = name
        self.n_res += 1
        self.used.add((ty, fin))
        self.keys.append((ty, fin, i))
        if rng.random() < self.p_factory:
            return {"a": "publishFactory", "ty": ty, "name": name, "fid": self.n_res}
        a = {"a": "publish", "ty": ty, "name": name, "v": self.n_res}
        if rng.random() < 0.25:
            self.n_td += 1
            a["td"] = self.n_td         # add_resource(..., teardown_callback=)
        return a

    def scripts(self) -> None:
        rng = self.rng
        for i, spec in enumerate(self.prog):
            for phase in ("prepare", "start"):
                if spec[phase] is None:
                    continue
                acts: list[dict[str, Any]] = []
                for _ in range(rng.randint(0, 4)):
                    r = rng.random()
                    if r < 0.4:
                        a = self.gen_publish(i, phase)
                        if a:
                            if rng.random() < self.p_delay_pub:
                                acts.append({"a": "tick", "d": rng.choice([1, 2, 3, 5])})
                            acts.append(a)
                    elif r < 0.9 - self.p_act_await:
                        acts.append({"a": "tick", "d": rng.choice(DELAYS)})
                    elif r < 1.0 - self.p_act_await:
                        self.n_td += 1
                        acts.append({"a": "regTd", "id": self.n_td})
                    else:
                        acts.append({"a": "AWAIT"})     # placeholder, filled in below
                spec[phase] = acts
        # awaits: wired to keys published somewhere in the tree
        for i, spec in enumerate(self.prog):
            for phase in ("prepare", "start"):
                if spec[phase] is None:
                    continue
                out = []
                for a in spec[phase]:
                    if a["a"] != "AWAIT":
                        out.append(a)
                        continue
                    if rng.random() > self.p_await * 2.5:
                        continue
                    others = [k for k in self.keys if k[2] != i]
                    if others and rng.random() > 0.03:
                        ty, name, _ = rng.choice(others)
                    else:
                        ty, name = rng.randrange(NT), "nowhere"
                    if rng.random() < self.p_opt:
                        out.append({"a": "awaitOpt", "ty": ty, "name": name})
                    else:
                        out.append({"a": "await", "ty": ty, "name": name})
                spec[phase] = out

    def burst(self) -> None:
        """The D6 class: one component publishes many unrelated resources and then the wanted one
        inside one atomic section, while a sibling is already waiting for it."""
        rng = self.rng
        cands = [i for i, s in enumerate(self.prog) if s["start"] is not None and s["parent"] is not None]
        if len(cands) < 2:
            return
        w, p = rng.sample(cands, 2)
        n = rng.choice([10, 49, 50, 51, 52, 60, 120])
        ty = rng.randrange(NT)
        target = f"target{self.n_res}"
        acts = [{"a": "tick", "d": rng.choice([0, 1, 2])}]
        for _ in range(n):
            self.n_res += 1
            acts.append({"a": "publish", "ty": rng.randrange(NT), "name": f"b{self.n_res}", "v": self.n_res})
        self.n_res += 1
        acts.append({"a": "publish", "ty": ty, "name": target, "v": self.n_res})
        self.prog[p]["start"] = self.prog[p]["start"] + acts
        self.prog[w]["start"] = [{"a": "await", "ty": ty, "name": target}] + self.prog[w]["start"]

    def inject_fault(self) -> None:
        rng = self.rng
        i = rng.randrange(len(self.prog))
        spec = self.prog[i]
        r = rng.random()
        if r < 0.15:
            spec["ctorFails"] = True
            return
        phases = [p for p in ("prepare", "start") if spec[p] is not None]
        if not phases:
            spec["start"] = []
            phases = ["start"]
        ph = rng.choice(phases)
        pos = rng.randint(0, len(spec[ph]))
        spec[ph] = spec[ph][:pos] + [{"a": "fail", "e": rng.randrange(4)}] + spec[ph][pos:]

    def build(self) -> dict[str, Any]:
        rng = self.rng
        self.tree()
        self.scripts()
        if rng.random() < self.p_burst:
            self.burst()
        if rng.random() < self.p_fail:
            self.inject_fault()
        timeout = 10.0 ** 6
        if rng.random() < self.p_timeout:
            timeout = rng.randint(0, 14) + 0.5 if rng.random() < 0.85 else 0.0
        return {"kind": "startup", "prog": self.prog, "timeout": timeout}


def make_completable(case: dict[str, Any], rng: random.Random, run_reference: Any, max_tries: int = 12) -> dict[str, Any]:
    """Drop awaits until the reference run (with no time-out and no fault) completes."""
    for _ in range(max_tries):
        probe = {**case, "timeout": 10.0 ** 6}
        ref = run_reference(probe)
        if ref["outcome"]["k"] != "timeout":
            return case
        awaits = [(i, ph, n) for i, s in enumerate(case["prog"]) for ph in ("prepare", "start") if s[ph]
                  for n, a in enumerate(s[ph]) if a["a"] == "await"]
        if not awaits:
            return case
        for i, ph, n in rng.sample(awaits, max(1, len(awaits) // 3)):
            case["prog"][i][ph][n] = {"a": "tick", "d": 0}
    return case
