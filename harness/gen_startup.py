"""Seeded generator of component start-up programs (C05, C06, C07, C15)."""

from __future__ import annotations

import random
from typing import Any

NT = 4
DELAYS = [0, 0, 1, 1, 2, 3, 5]


class ProgGen:
    def __init__(self, rng: random.Random, *, max_nodes: int = 10, max_depth: int = 4, max_fan: int = 4,
                 p_await: float = 0.35, p_fail: float = 0.0, p_timeout: float = 0.0, p_burst: float = 0.0,
                 p_stuck: float = 0.08, p_factory: float = 0.15, p_opt: float = 0.1, p_delay_pub: float = 0.0, min_nodes: int = 1,
                 p_act_await: float = 0.2, p_overlap: float = 0.1,
                 p_busy: float = 0.0, p_contend: float = 0.08, p_abort: float = 0.08,
                 p_failfac: float = 0.0, p_twins: float = 0.1) -> None:
        self.rng = rng
        self.max_nodes = max_nodes
        self.max_depth = max_depth
        self.max_fan = max_fan
        self.p_await = p_await
        self.p_fail = p_fail
        self.p_timeout = p_timeout
        self.p_burst = p_burst
        self.p_stuck = p_stuck
        self.p_factory = p_factory
        self.p_opt = p_opt
        self.p_delay_pub = p_delay_pub
        self.min_nodes = min_nodes
        self.p_act_await = p_act_await
        self.p_overlap = p_overlap
        self.p_busy = p_busy
        self.p_contend = p_contend
        self.p_abort = p_abort
        self.p_failfac = p_failfac
        self.p_twins = p_twins
        self.prog: list[dict[str, Any]] = []
        self.keys: list[tuple[int, str, int]] = []     # (ty, final name, publisher)
        self.used: set[tuple[int, str]] = set()
        self.slow_keys: set[tuple[int, str]] = set()
        self.n_res = 0
        self.n_td = 0

    # ------------------------------------------------------------------ structure
    def tree(self) -> None:
        rng = self.rng
        budget = rng.randint(min(self.min_nodes, self.max_nodes), self.max_nodes)

        def node(parent: int | None, depth: int, path: str) -> int:
            i = len(self.prog)
            alias = path.rsplit(".", 1)[-1]
            dflt = alias.split("/", 1)[1] if "/" in alias else "default"
            spec = {"path": path, "parent": parent, "cls": i, "ctorFails": False, "dflt": dflt,
                    "prepare": [] if rng.random() < 0.6 else None, "start": [] if rng.random() < 0.7 else None,
                    "children": []}
            self.prog.append(spec)
            if depth < self.max_depth:
                for _ in range(rng.randint(0, self.max_fan)):
                    if len(self.prog) >= budget:
                        break
                    j = len(self.prog)
                    al = f"c{j}" + (f"/n{j}" if rng.random() < 0.4 else "")
                    child_path = f"{path}.{al}" if path else al
                    spec["children"].append(node(i, depth + 1, child_path))
            return i

        node(None, 0, "")
        tries = 0
        while len(self.prog) < min(self.min_nodes, budget) and tries < 20:
            tries += 1
            self.prog.clear()
            node(None, 0, "")

    def final_name(self, spec: dict[str, Any], phase: str, name: str) -> str:
        return spec["dflt"] if name == "default" and phase == "start" else name

    def gen_publish(self, i: int, phase: str, earlier: list[dict[str, Any]] | None = None) -> dict[str, Any] | None:
        rng = self.rng
        spec = self.prog[i]
        ty = rng.randrange(NT)
        name = "default" if rng.random() < 0.3 else f"r{self.n_res}"
        fin = self.final_name(spec, phase, name)
        if (ty, fin) in self.used:
            name = f"r{self.n_res}"
            fin = name
        self.n_res += 1
        if rng.random() < self.p_factory:
            a: dict[str, Any] = {"a": "publishFactory", "ty": ty, "name": name, "fid": self.n_res}
            if rng.random() < 0.3:
                a["slow"] = rng.choice([1, 2, 4])       # an asynchronous factory that takes this many ticks
            # a factory for two types, one of which is already taken (under the same name) by a resource
            # this component published earlier in the same body
            plain = [e for e in (earlier or []) if e["a"] == "publish" and e["name"] != "default"]
            if plain and rng.random() < 0.5:
                e = rng.choice(plain)
                if e["ty"] != ty and (ty, e["name"]) not in self.used and not any(
                        x["a"] == "publishFactory" and x["name"] == e["name"] for x in earlier or []):
                    a["name"], a["ty2"] = e["name"], e["ty"]
                    fin = e["name"]
            if "ty2" not in a and "slow" not in a and rng.random() < 0.25:
                # … or a factory for two types that are both free
                t2 = rng.choice([t for t in range(NT) if t != ty])
                if (t2, fin) not in self.used:
                    a["ty2"] = t2
                    a["free2"] = True
                    self.used.add((t2, fin))
                    self.keys.append((t2, fin, i))
            if "slow" not in a and rng.random() < 0.35:
                a["annot"] = True       # no types= argument: they are read off the return annotation (a union for two)
            self.used.add((ty, fin))
            self.keys.append((ty, fin, i))
            if a.get("slow"):
                self.slow_keys.add((ty, fin))
            return a
        self.used.add((ty, fin))
        self.keys.append((ty, fin, i))
        a = {"a": "publish", "ty": ty, "name": name, "v": self.n_res}
        if rng.random() < 0.25:
            self.n_td += 1
            a["td"] = self.n_td         # add_resource(..., teardown_callback=)
        return a

    def scripts(self) -> None:
        rng = self.rng
        for i, spec in enumerate(self.prog):
            for phase in ("prepare", "start"):
                if spec[phase] is None:
                    continue
                acts: list[dict[str, Any]] = []
                for _ in range(rng.randint(0, 4)):
                    r = rng.random()
                    if r < 0.4:
                        a = self.gen_publish(i, phase, acts)
                        if a:
                            if rng.random() < self.p_delay_pub:
                                acts.append({"a": "tick", "d": rng.choice([1, 2, 3, 5])})
                            acts.append(a)
                    elif r < 0.9 - self.p_act_await:
                        acts.append({"a": "tick", "d": rng.choice(DELAYS)})
                        if rng.random() < 0.12:
                            acts[-1]["nested"] = True       # … followed by a start_component() of the component's own
                        elif acts[-1]["d"] and rng.random() < 0.3:
                            # the time is spent waiting - with a time limit - for something nobody publishes; the component
                            # then carries on (what it, and everybody else, does afterwards is none the worse for it)
                            acts[-1]["giveup"] = True
                    elif r < 1.0 - self.p_act_await:
                        self.n_td += 1
                        if rng.random() < 0.4:
                            # a service task that takes d ticks to report that it has started; its finalizer is a
                            # teardown callback registered when start_service_task() returns
                            acts.append({"a": "startTask", "id": self.n_td, "d": rng.choice([0, 1, 2, 4])})
                        else:
                            acts.append({"a": "regTd", "id": self.n_td})
                    else:
                        acts.append({"a": "AWAIT"})     # placeholder, filled in below
                spec[phase] = acts
        # awaits: wired to keys published somewhere in the tree
        for i, spec in enumerate(self.prog):
            for phase in ("prepare", "start"):
                if spec[phase] is None:
                    continue
                out = []
                for a in spec[phase]:
                    if a["a"] != "AWAIT":
                        out.append(a)
                        continue
                    if rng.random() > self.p_await * 2.5:
                        continue
                    others = [k for k in self.keys if k[2] != i]
                    if others and rng.random() > 0.03:
                        ty, name, _ = rng.choice(others)
                    else:
                        ty, name = rng.randrange(NT), "nowhere"
                    if rng.random() < self.p_opt and (ty, name) not in self.slow_keys:
                        # (an optional lookup in the very instant a slow factory is published may or may not
                        # run it: a tie that changes every later time - not generated)
                        out.append({"a": "awaitOpt", "ty": ty, "name": name})
                    else:
                        out.append({"a": "await", "ty": ty, "name": name})
                        if rng.random() < 0.3:
                            out[-1]["inject"] = True        # … through an injected coroutine function
                spec[phase] = out

    def below(self, x: int, anc: int) -> bool:
        """Is component x a descendant of component anc? (A component's start() runs after its whole subtree has
        started: a descendant waiting for what start() publishes is a cycle.)"""
        while x is not None:
            x = self.prog[x]["parent"]
            if x == anc:
                return True
        return False

    def burst(self) -> None:
        """The D6 class: one component publishes many unrelated resources and then the wanted one
        inside one atomic section, while a sibling is already waiting for it."""
        rng = self.rng
        cands = [i for i, s in enumerate(self.prog) if s["start"] is not None and s["parent"] is not None]
        if len(cands) < 2:
            return
        w, p = rng.sample(cands, 2)
        if self.below(w, p):
            return
        n = rng.choice([10, 49, 50, 51, 52, 60, 120])
        ty = rng.randrange(NT)
        target = f"target{self.n_res}"
        acts = [{"a": "tick", "d": rng.choice([0, 1, 2])}]
        for _ in range(n):
            self.n_res += 1
            acts.append({"a": "publish", "ty": rng.randrange(NT), "name": f"b{self.n_res}", "v": self.n_res})
        self.n_res += 1
        acts.append({"a": "publish", "ty": ty, "name": target, "v": self.n_res})
        others = [c for c in cands if c not in (w, p) and not self.below(c, p)]
        if others and rng.random() < 0.6:
            # a third component is waiting too, for something published only later: its queue is full
            # while the wanted resource is announced
            w0 = rng.choice(others)
            self.n_res += 1
            late = f"late{self.n_res}"
            acts += [{"a": "tick", "d": 1}, {"a": "publish", "ty": ty, "name": late, "v": self.n_res}]
            self.prog[w0]["start"] = [{"a": "await", "ty": ty, "name": late, "keep": True}] + self.prog[w0]["start"]
        self.prog[p]["start"] = self.prog[p]["start"] + acts
        self.prog[w]["start"] = [{"a": "await", "ty": ty, "name": target, "keep": True}] + self.prog[w]["start"]

    def leaf(self, start: list[dict[str, Any]]) -> int:
        """A new leaf component directly under the root, without prepare()."""
        i = len(self.prog)
        self.prog.append({"path": f"z{i}", "parent": 0, "cls": i, "ctorFails": False, "dflt": "default",
                          "prepare": None, "start": start, "children": []})
        self.prog[0]["children"].append(i)
        return i

    def busy(self) -> None:
        """A waiter that is busy inside a slow asynchronous factory does not drain its event queue; more than
        50 publications arrive meanwhile (in several atomic sections); then, in a section of its own, the
        resource another waiter - which does keep up - is waiting for. Three extra leaves under the root."""
        rng = self.rng
        ty, ty2 = rng.randrange(NT), rng.randrange(NT)
        self.n_res += 1
        slowkey, target = f"slow{self.n_res}", f"wanted{self.n_res}"
        acts = [{"a": "tick", "d": 1}, {"a": "publishFactory", "ty": ty, "name": slowkey, "fid": self.n_res,
                                        "slow": rng.choice([6, 10])}]
        for k in rng.choice([[30, 30], [49, 2], [20, 20, 20], [49], [50]]):
            acts.append({"a": "tick", "d": 1})
            for _ in range(k):
                self.n_res += 1
                acts.append({"a": "publish", "ty": rng.randrange(NT), "name": f"x{self.n_res}", "v": self.n_res})
        self.n_res += 1
        acts += [{"a": "tick", "d": 1}, {"a": "publish", "ty": ty2, "name": target, "v": self.n_res}]
        self.used.update({(ty, slowkey), (ty2, target)})
        order = [[{"a": "await", "ty": ty, "name": slowkey, "keep": True}],
                 [{"a": "await", "ty": ty2, "name": target, "keep": True}]]
        if rng.random() < 0.25:
            order.reverse()
        for st in order:
            self.leaf(st)
        self.leaf(acts)

    def contend(self) -> None:
        """Two or three components wait for the product of one slow asynchronous factory published under a name of
        its own, while a resource of the same type exists under the default name: the first to look calls the
        factory, the others wait for that generation and must get the same product."""
        rng = self.rng
        ty = rng.randrange(NT)
        self.n_res += 2
        key = f"special{self.n_res}"
        self.used.update({(ty, key), (ty, "default")})
        if any(k[0] == ty and k[1] == "default" for k in self.keys):
            return
        for _ in range(rng.choice([2, 2, 3])):
            self.leaf([{"a": "await", "ty": ty, "name": key, "keep": True}])
        self.leaf([{"a": "publish", "ty": ty, "name": "default", "v": self.n_res - 1}, {"a": "tick", "d": 1},
                   {"a": "publishFactory", "ty": ty, "name": key, "fid": self.n_res, "slow": rng.choice([2, 3])}])
        self.keys.append((ty, "default", len(self.prog) - 1))

    def abort(self) -> None:
        """A generation that comes to nothing while others wait for it. A slow asynchronous factory; the first
        component to look it up gives up after a while (its lookup is cancelled by a time limit of its own) - or
        the factory's first call fails and that component handles the error; a second component has been waiting
        for that generation since before, a third arrives later: both must still get the product (of a second
        call of the factory), at the time a fresh generation takes from the moment the first came to nothing.
        Four extra leaves under the root; the request times are distinct and off the grid of ticks and time-outs."""
        rng = self.rng
        ty = rng.randrange(NT)
        self.n_res += 1
        key = f"ab{self.n_res}"
        self.used.add((ty, key))
        slow = rng.choice([2, 3, 4])
        fails = rng.random() < 0.5
        fac = {"a": "publishFactory", "ty": ty, "name": key, "fid": self.n_res, "slow": slow}
        if fails:
            fac["failFirst"] = 1
            first = {"a": "awaitCatch", "ty": ty, "name": key}
            end = 1 + slow
        else:
            first = {"a": "awaitGiveUp", "ty": ty, "name": key, "g": 1}
            end = 2
        # (the five acts belong together: the shrinker keeps all of them or none)
        fac.update(grp=key, grp_n=5)
        first["grp"] = key
        self.leaf([fac])
        self.leaf([{"a": "tick", "d": 1, "grp": key}, first])
        self.leaf([{"a": "tick", "d": 1.25, "grp": key}, {"a": "await", "ty": ty, "name": key, "keep": True, "grp": key}])
        if rng.random() < 0.7:
            self.leaf([{"a": "tick", "d": end + 0.25}, {"a": "await", "ty": ty, "name": key, "keep": True}])

    def twins(self) -> None:
        """Two components of one class, declared only in the configuration handed to start_component(), under two
        aliases that refer to ONE mapping object (what a YAML anchor/alias loads as), each with a child of its own
        declared in that mapping: both subtrees are built and started."""
        rng = self.rng
        faulty = any(sp["ctorFails"] or any(a["a"] in ("fail", "awaitFail") or a.get("fails") is not None
                                            for ph in ("prepare", "start") for a in (sp[ph] or []))
                     for sp in self.prog)
        for k in (1, 2):
            i = len(self.prog)
            self.prog.append({"path": f"tw/{k}", "parent": 0, "cls": i, "ctorFails": False, "dflt": str(k), "twin": "T",
                              "prepare": None, "start": [{"a": "tick", "d": rng.choice([0, 1])}], "children": [i + 1]})
            self.prog[0]["children"].append(i)
            # the child's alias is the empty string (possible in a configuration only): its path is "tw/k." - and if
            # nothing else fails in this start-up, the second one's start() does
            leaf_start: list[dict[str, Any]] = [{"a": "tick", "d": 0}]
            if k == 2 and not faulty and i % 2 == 0:
                leaf_start.append({"a": "fail", "e": 0})
            self.prog.append({"path": f"tw/{k}.", "parent": i, "cls": i + 1, "ctorFails": False, "dflt": "default",
                              "twin": "TL", "prepare": None, "start": leaf_start, "children": []})

    def failfac(self) -> None:
        """A component is already waiting for a resource when a factory for it is registered whose call fails - with a
        LookupError, of all things: the waiting component's start() fails with that error (it is not "still missing").
        Two extra leaves under the root."""
        rng = self.rng
        ty = rng.randrange(NT)
        self.n_res += 1
        key = f"ff{self.n_res}"
        self.used.add((ty, key))
        self.leaf([{"a": "awaitFail", "ty": ty, "name": key, "e": 1, "grp": key, "grp_n": 3}])
        self.leaf([{"a": "tick", "d": rng.choice([1, 2]), "grp": key},
                   {"a": "publishFactory", "ty": ty, "name": key, "fid": self.n_res, "fails": 1, "grp": key}])

    def overlap(self) -> None:
        """A sibling already waits for (T, n) when a component publishes a resource under (T2, n) and then a
        factory for both T and T2 under n, with nothing else published afterwards."""
        rng = self.rng
        cands = [i for i, s in enumerate(self.prog) if s["start"] is not None and s["parent"] is not None]
        if len(cands) < 2:
            return
        w, p = rng.sample(cands, 2)
        if self.below(w, p):
            return
        ty, ty2 = rng.sample(range(NT), 2)
        name = f"ov{self.n_res}"
        self.n_res += 2
        self.used.update({(ty, name), (ty2, name)})
        acts = [{"a": "tick", "d": rng.choice([1, 2, 3])},
                {"a": "publish", "ty": ty2, "name": name, "v": self.n_res - 1},
                {"a": "publishFactory", "ty": ty, "name": name, "fid": self.n_res, "ty2": ty2}]
        self.prog[p]["start"] = self.prog[p]["start"] + acts
        self.prog[w]["start"] = [{"a": "await", "ty": ty, "name": name, "keep": True}] + self.prog[w]["start"]

    def inject_fault(self) -> None:
        rng = self.rng
        i = rng.choice([n for n, sp in enumerate(self.prog) if not sp.get("twin")])     # (twins share a class)
        spec = self.prog[i]
        r = rng.random()
        if r < 0.15:
            spec["ctorFails"] = True
            return
        phases = [p for p in ("prepare", "start") if spec[p] is not None]
        if not phases:
            spec["start"] = []
            phases = ["start"]
        ph = rng.choice(phases)
        pos = rng.randint(0, len(spec[ph]))
        fault: dict[str, Any] = {"a": "fail", "e": rng.randrange(4)}
        mine = [a for a in spec[ph][:pos] if a["a"] == "publish"]
        if mine and rng.random() < 0.5:
            # the component fails inside add_resource(): it publishes, together with a teardown callback, under a pair it
            # has already taken itself - nothing of that call is registered, and its ResourceConflict is the failure
            a = rng.choice(mine)
            self.n_td += 1
            fault["conflict"] = [a["ty"], a["name"], self.n_td]
        spec[ph] = spec[ph][:pos] + [fault] + spec[ph][pos:]

    def build(self) -> dict[str, Any]:
        rng = self.rng
        self.tree()
        self.scripts()
        if rng.random() < self.p_burst:
            self.burst()
        if rng.random() < self.p_overlap:
            self.overlap()
        if rng.random() < self.p_busy:
            self.busy()
        if rng.random() < self.p_contend:
            self.contend()
        if rng.random() < self.p_abort:
            self.abort()
        if rng.random() < self.p_failfac:
            self.failfac()          # (the one failure of this start-up)
        elif rng.random() < self.p_fail:
            self.inject_fault()
        if rng.random() < self.p_twins:
            self.twins()            # (last: children declared in the configuration come after the hard-coded ones)
        timeout = 10.0 ** 6
        if rng.random() < self.p_timeout:
            timeout = rng.randint(0, 14) + 0.5 if rng.random() < 0.85 else 0.0
        case = {"kind": "startup", "prog": self.prog, "timeout": timeout}
        if timeout == 10.0 ** 6 and rng.random() < 0.5:
            case["no_timeout"] = True       # start_component(..., timeout=None)
        return case


def valid_prog(prog: list[dict[str, Any]]) -> bool:
    """A two-type factory needs the resource that occupies its second type, published earlier in the same body
    (used by the shrinker)."""
    grp: dict[str, list[int]] = {}
    for spec in prog:
        for ph in ("prepare", "start"):
            for a in spec[ph] or []:
                if "grp" in a:
                    g = grp.setdefault(a["grp"], [0, 0])
                    g[0] += 1
                    g[1] = max(g[1], a.get("grp_n", 0))
    if any(n != want for n, want in grp.values()):
        return False
    for spec in prog:
        for ph in ("prepare", "start"):
            acts = spec[ph] or []
            for n, a in enumerate(acts):
                if a["a"] == "publishFactory" and "ty2" in a and not a.get("free2"):
                    if not any(b["a"] == "publish" and b["ty"] == a["ty2"] and b["name"] == a["name"] for b in acts[:n]):
                        return False
    return True


def make_completable(case: dict[str, Any], rng: random.Random, run_reference: Any, max_tries: int = 12) -> dict[str, Any]:
    """Drop awaits until the reference run (with no time-out and no fault) completes."""
    for _ in range(max_tries):
        probe = {**case, "timeout": 10.0 ** 6}
        ref = run_reference(probe)
        if ref["outcome"]["k"] != "timeout":
            return case
        awaits = [(i, ph, n) for i, s in enumerate(case["prog"]) for ph in ("prepare", "start") if s[ph]
                  for n, a in enumerate(s[ph]) if a["a"] == "await" and not a.get("keep")]
        if not awaits:
            return case
        for i, ph, n in rng.sample(awaits, max(1, len(awaits) // 3)):
            case["prog"][i][ph][n] = {"a": "tick", "d": 0}
    return case
