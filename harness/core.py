"""
Core of the correspondence harness: the Lean gate (build, source audit, axiom audit),
the model driver, the generic check loop (corpus → generated cases → compare → monitors →
shrink → verdict) and evidence writing.  See DESIGN.md sections 5 and 6.
"""

from __future__ import annotations

import hashlib
import json
import os
import random
import re
import subprocess
import sys
import tempfile
import time
from concurrent.futures import ProcessPoolExecutor
from pathlib import Path
from typing import Any, Callable, Iterable, Iterator

VERIF = Path(__file__).resolve().parent.parent
LEAN = VERIF / "lean"
DRIVER = Path(os.environ.get("VERIF_DRIVER") or LEAN / ".lake" / "build" / "bin" / "driver")   # override: development only
ALLOWED_AXIOMS = {"propext", "Classical.choice", "Quot.sound"}
FORBIDDEN_RE = re.compile(
    r"\bsorry\b|\badmit\b|^\s*axiom\s|native_decide|bv_decide|implemented_by|\bunsafe\s|maxHeartbeats\s+0\b"
)
TRUSTED_BASE = [
    "Lean 4.33.0 kernel (thorough tier: re-checked with leanchecker)",
    "axioms: subset of {propext, Classical.choice, Quot.sound}, audited with #print axioms on every run; no sorry/native_decide/bv_decide/own axioms",
    "hand-written Lean model of asphalt's bookkeeping (lean/AsphaltModel); tied to /repo only by this run's correspondence cases",
    "the Python harness: generators, directors, virtual clocks, canonicalisation, monitors; JSON glue in lean/Driver.lean",
    "environment modelled, not verified: CPython dict/contextvars/async generators, anyio task groups, cancel scopes, events and memory streams, asyncio and trio schedulers, atomicity between checkpoints",
]


class Infra(Exception):
    """The machinery itself failed (exit 2, never a VIOLATION)."""


# --------------------------------------------------------------------------- Lean gate


def _strip_comments(text: str) -> str:
    # remove /- ... -/ (nested) and -- ... comments
    out = []
    depth = 0
    i = 0
    n = len(text)
    while i < n:
        if text.startswith("/-", i):
            depth += 1
            i += 2
        elif depth and text.startswith("-/", i):
            depth -= 1
            i += 2
        elif depth:
            if text[i] == "\n":
                out.append("\n")
            i += 1
        elif text.startswith("--", i):
            while i < n and text[i] != "\n":
                i += 1
        else:
            out.append(text[i])
            i += 1
    return "".join(out)


def lean_sources() -> list[Path]:
    files = [LEAN / "Driver.lean", LEAN / "AsphaltModel.lean", LEAN / "AsphaltProofs.lean"]
    files += sorted((LEAN / "AsphaltModel").rglob("*.lean"))
    files += sorted((LEAN / "AsphaltProofs").rglob("*.lean"))
    files += sorted((LEAN / "DriverLib").rglob("*.lean"))
    return [f for f in files if f.exists()]


def source_audit() -> list[str]:
    hits = []
    for f in lean_sources():
        text = _strip_comments(f.read_text())
        for lineno, line in enumerate(text.splitlines(), 1):
            if FORBIDDEN_RE.search(line):
                hits.append(f"{f.relative_to(VERIF)}:{lineno}: {line.strip()}")
    return hits


def _run(cmd: list[str], cwd: Path, timeout: float) -> subprocess.CompletedProcess[str]:
    env = dict(os.environ)
    env.pop("PYTHONPATH", None)
    return subprocess.run(
        cmd, cwd=cwd, capture_output=True, text=True, timeout=timeout, env=env
    )


def lake_build(clean: bool = False) -> float:
    t0 = time.time()
    if clean:
        _run(["lake", "clean"], LEAN, 600)
    # a lock so that checks started in parallel do not build at the same time
    import fcntl

    LEAN.joinpath(".lake").mkdir(exist_ok=True)
    with open(LEAN / ".lake" / "verif.lock", "w") as lock:
        fcntl.flock(lock, fcntl.LOCK_EX)
        res = _run(["lake", "build"], LEAN, 3600)
    if res.returncode != 0:
        tail = "\n".join((res.stdout + res.stderr).splitlines()[-40:])
        raise Infra(f"lake build failed:\n{tail}")
    if not DRIVER.exists():
        raise Infra("driver executable missing after lake build")
    return time.time() - t0


def property_files(pid: str) -> list[Path]:
    """Props/Cxx.lean and its continuation files Props/Cxx_*.lean."""
    d = LEAN / "AsphaltProofs" / "Props"
    return [f for f in [d / f"{pid}.lean", *sorted(d.glob(f"{pid}_*.lean"))] if f.exists()]


def property_theorems(pid: str) -> list[str]:
    """Names of the property theorems of `pid`: every `theorem Cxx_…` in its Props files."""
    names: list[str] = []
    for f in property_files(pid):
        text = _strip_comments(f.read_text())
        names += re.findall(rf"^\s*theorem\s+({pid}_\w+)", text, flags=re.M)
    return names


def axiom_audit(pid: str) -> dict[str, list[str]]:
    """Run `#print axioms` on every property theorem of pid; returns name -> axioms."""
    names = property_theorems(pid)
    if not names:
        raise Infra(f"no property theorems found for {pid}")
    src = "".join(f"import AsphaltProofs.Props.{f.stem}\n" for f in property_files(pid)) + "open Asphalt\n" + "".join(
        f"#print axioms {n}\n" for n in names
    )
    with tempfile.TemporaryDirectory(prefix="verif-audit-") as td:
        p = Path(td) / "Audit.lean"
        p.write_text(src)
        res = _run(["lake", "env", "lean", str(p)], LEAN, 900)
    out = res.stdout + res.stderr
    if res.returncode != 0:
        raise Infra(f"axiom audit failed to compile:\n{out[-2000:]}")
    result: dict[str, list[str]] = {}
    for m in re.finditer(
        r"'(?:Asphalt\.)?(\w+)' depends on axioms: \[([^\]]*)\]", out.replace("\n", " ")
    ):
        result[m.group(1)] = [a.strip() for a in m.group(2).split(",") if a.strip()]
    for m in re.finditer(r"'(?:Asphalt\.)?(\w+)' does not depend on any axioms", out):
        result[m.group(1)] = []
    missing = [n for n in names if n not in result]
    if missing:
        raise Infra(f"axiom audit: no report for {missing}:\n{out[-2000:]}")
    return result


def leanchecker(pid: str) -> str:
    mods = ["AsphaltModel"] + [f"AsphaltProofs.Props.{f.stem}" for f in property_files(pid)]
    res = _run(["lake", "env", "leanchecker", *mods], LEAN, 3600)
    if res.returncode != 0:
        raise Infra(f"leanchecker failed: {(res.stdout + res.stderr)[-2000:]}")
    return "lake env leanchecker " + " ".join(mods)


# --------------------------------------------------------------------------- model driver


def run_model(requests: list[dict[str, Any]]) -> list[dict[str, Any]]:
    if not requests:
        return []
    data = "\n".join(json.dumps(r, separators=(",", ":")) for r in requests) + "\n"
    res = subprocess.run(
        [str(DRIVER)], input=data, capture_output=True, text=True, timeout=1800
    )
    if res.returncode != 0:
        raise Infra(f"model driver crashed: {res.stderr[-2000:]}")
    lines = [ln for ln in res.stdout.splitlines() if ln.strip()]
    if len(lines) != len(requests):
        raise Infra(f"model driver answered {len(lines)} lines for {len(requests)} cases")
    return [json.loads(ln) for ln in lines]


# --------------------------------------------------------------------------- property interface


class Prop:
    """One property's correspondence: generators, implementation runner, comparison, monitor."""

    id = "C00"
    quick_cases = 300
    thorough_cases = 20000
    rule = ""
    assumptions: list[str] = []
    # name of worker function importable at module level (for multiprocessing)

    def corpus(self) -> list[dict[str, Any]]:
        d = VERIF / "harness" / "corpus" / self.id
        cases = []
        if d.is_dir():
            for f in sorted(d.glob("*.json")):
                c = json.loads(f.read_text())
                c.setdefault("origin", f"corpus/{f.name}")
                cases.append(c)
        return cases

    def generate(self, rng: random.Random, tier: str, index: int) -> dict[str, Any]:
        raise NotImplementedError

    def exhaustive(self, tier: str) -> Iterable[dict[str, Any]]:
        return []

    def run_impl(self, case: dict[str, Any]) -> Any:
        """Execute the case on the real asphalt; return the canonical observation."""
        raise NotImplementedError

    def model_request(self, case: dict[str, Any], impl: Any) -> dict[str, Any] | None:
        raise NotImplementedError

    def compare(self, case: dict[str, Any], impl: Any, model: dict[str, Any]) -> str | None:
        """None if model and implementation agree, else a description."""
        raise NotImplementedError

    def monitor(self, case: dict[str, Any], impl: Any) -> list[str]:
        """Direct statement of the property on what the implementation did."""
        return []

    def nontrivial(self, case: dict[str, Any], impl: Any) -> bool:
        return True

    def features(self, case: dict[str, Any], impl: Any) -> list[str]:
        return []

    def shrink(self, case: dict[str, Any]) -> Iterator[dict[str, Any]]:
        return iter(())

    def known(self, case: dict[str, Any], impl: Any, failure: str) -> str | None:
        """Return the id of a known finding that this failure is an instance of."""
        return None


class Composite(Prop):
    """A property checked through more than one harness: cases are dispatched on case["kind"].
    `parts` = [(share, Prop)]; every part is an ordinary Prop restricted to this property's tag."""

    parts: list[tuple[int, Prop]] = []

    def _part(self, case: dict[str, Any]) -> Prop:
        for _, p in self.parts:
            if case.get("kind") in getattr(p, "kinds", ()):
                return p
        return self.parts[0][1]

    def corpus(self):
        return Prop.corpus(self)

    def generate(self, rng, tier, index):
        total = sum(w for w, _ in self.parts)
        r = index % total
        for w, p in self.parts:
            if r < w:
                return p.generate(rng, tier, index)
            r -= w
        raise AssertionError

    def exhaustive(self, tier):
        return [c for _, p in self.parts for c in p.exhaustive(tier)]

    def run_impl(self, case):
        return self._part(case).run_impl(case)

    def model_request(self, case, impl):
        return self._part(case).model_request(case, impl)

    def compare(self, case, impl, model):
        return self._part(case).compare(case, impl, model)

    def monitor(self, case, impl):
        return self._part(case).monitor(case, impl)

    def nontrivial(self, case, impl):
        return self._part(case).nontrivial(case, impl)

    def features(self, case, impl):
        return [f"{case.get('kind')}:{f}" for f in self._part(case).features(case, impl)]

    def shrink(self, case):
        return self._part(case).shrink(case)

    def known(self, case, impl, failure):
        return self._part(case).known(case, impl, failure)


def case_hash(case: dict[str, Any]) -> str:
    c = {k: v for k, v in case.items() if k not in ("seed", "idx", "origin")}
    return hashlib.sha1(json.dumps(c, sort_keys=True, default=str).encode()).hexdigest()[:16]


_PROP: Prop | None = None


def _load_prop(pid: str) -> Prop:
    import importlib

    mod = importlib.import_module(f"harness.props.{pid.lower()}")
    return mod.PROP


def _worker_init(pid: str) -> None:
    global _PROP
    import logging
    import warnings

    warnings.simplefilter("ignore")
    logging.disable(logging.CRITICAL)
    _PROP = _load_prop(pid)
    # the forked worker inherits the parent's heap (all generated cases); keep the collector off it,
    # some harnesses call gc.collect() once per case
    import gc

    gc.collect()
    gc.freeze()


class CaseHang(BaseException):
    """Raised (from a SIGALRM handler) inside a case that does not finish in real time."""


CASE_LIMIT = float(os.environ.get("VERIF_CASE_TIMEOUT", "30"))
_HANGS = [0]


def _worker_run(case: dict[str, Any]) -> tuple[dict[str, Any], Any, str | None]:
    assert _PROP is not None
    import signal
    import threading

    watchdog = threading.current_thread() is threading.main_thread() and hasattr(signal, "setitimer")

    def on_alarm(signum: int, frame: Any) -> None:
        raise CaseHang()

    if watchdog:
        old = signal.signal(signal.SIGALRM, on_alarm)
        # (repeating: code that catches BaseException - a teardown loop, say - may swallow the first ones)
        # (after two hangs in this worker process the rest get 3 s each: the finding is made, the run should end)
        signal.setitimer(signal.ITIMER_REAL, CASE_LIMIT if _HANGS[0] < 2 else 3.0, 0.05)
    try:
        return case, _PROP.run_impl(case), None
    except CaseHang:
        _HANGS[0] += 1
        return case, None, "HANG"
    except BaseException as exc:  # harness failure, reported as such
        import traceback

        if isinstance(exc, BaseExceptionGroup) and exc.subgroup(CaseHang) is not None:
            _HANGS[0] += 1
            return case, None, "HANG"
        return case, None, "".join(traceback.format_exception(exc))[-3000:]
    finally:
        if watchdog:
            signal.setitimer(signal.ITIMER_REAL, 0)
            signal.signal(signal.SIGALRM, old)


def evaluate(prop: Prop, cases: list[dict[str, Any]], workers: int) -> list[dict[str, Any]]:
    """Run cases on implementation and model; return per-case records."""
    if workers <= 1 or len(cases) < 40:
        _worker_init(prop.id)
        impl_results = [_worker_run(c) for c in cases]
    else:
        ex = ProcessPoolExecutor(max_workers=workers, initializer=_worker_init, initargs=(prop.id,))
        try:
            limit = float(os.environ.get("VERIF_CASES_TIMEOUT", "3000"))
            impl_results = list(ex.map(_worker_run, cases, chunksize=max(1, len(cases) // (workers * 8)), timeout=limit))
        except TimeoutError:
            for p in list(getattr(ex, "_processes", {}).values()):
                p.kill()
            ex.shutdown(wait=False, cancel_futures=True)
            raise Infra(f"the implementation runs did not finish within {limit} s (a case hangs in real time)")
        finally:
            ex.shutdown(wait=False, cancel_futures=True)
    records = []
    requests = []
    req_index = []
    crashed = 0
    for i, (case, impl, err) in enumerate(impl_results):
        if err == "HANG":
            # every operation of every property terminates: a case that does not is a finding with that case as the
            # input (virtual time makes every legitimate wait instantaneous; the limit is real time)
            records.append({"case": case, "impl": {"hang": True}, "model": None, "disagree": None, "crashed": True,
                            "monitor": [f"[{prop.id}] the implementation did not finish this case within {CASE_LIMIT:g} s of "
                                        f"real time: something waits for ever or loops"]})
            continue
        if err is not None:
            # the harness could not drive the implementation through this case: on the unchanged tree
            # this never happens, so it is reported as a broken correspondence (the model no longer
            # describes this code), not as an infrastructure failure - unless it is systematic
            crashed += 1
            records.append({"case": case, "impl": {"harness_exception": err}, "model": None,
                            "disagree": "the implementation could not be driven through this case: " + err[-600:],
                            "monitor": [], "crashed": True})
            continue
        rec = {"case": case, "impl": impl, "model": None, "disagree": None, "monitor": []}
        req = prop.model_request(case, impl)
        if req is not None:
            requests.append(req)
            req_index.append(len(records))
        records.append(rec)
    if crashed and crashed == len(impl_results) and len(impl_results) >= 20:
        raise Infra(f"the harness crashed on every case, e.g.:\n{records[0]['disagree']}")
    outs = run_model(requests)
    for i, out in zip(req_index, outs):
        records[i]["model"] = out
    for rec in records:
        if rec.get("crashed"):
            continue
        if rec["model"] is not None and "driver_error" in rec["model"]:
            # what the implementation did cannot even be expressed in the model's vocabulary
            rec["disagree"] = "the model driver rejected the observation: " + str(rec["model"]["driver_error"])
        elif rec["model"] is not None:
            rec["disagree"] = prop.compare(rec["case"], rec["impl"], rec["model"])
        try:
            rec["monitor"] = prop.monitor(rec["case"], rec["impl"])
        except Exception as exc:  # noqa: BLE001 - the observation is outside what the monitor can interpret
            import traceback

            rec["monitor"] = []
            if not rec["disagree"]:
                rec["disagree"] = ("the monitor could not interpret what the implementation did: "
                                   + "".join(traceback.format_exception(exc))[-500:])
    return records


def evaluate_one(prop: Prop, case: dict[str, Any]) -> dict[str, Any]:
    return evaluate(prop, [case], 1)[0]


def shrink_case(prop: Prop, rec: dict[str, Any], budget: int = 400) -> dict[str, Any]:
    """Greedy delta-debugging: keep any smaller case that still fails the same way."""

    def kind(r: dict[str, Any]) -> str:
        return "monitor" if r["monitor"] else ("disagree" if r["disagree"] else "")

    if isinstance(rec.get("impl"), dict) and rec["impl"].get("hang"):
        return rec          # (every candidate that still hangs costs the full time limit: reported as found)
    want = kind(rec)
    best = rec
    improved = True
    while improved and budget > 0:
        improved = False
        for cand in prop.shrink(best["case"]):
            budget -= 1
            if budget <= 0:
                break
            try:
                r = evaluate_one(prop, cand)
            except Infra:
                continue
            if kind(r) == want:
                best = r
                improved = True
                break
    return best
