"""Seeded generators of nested configuration dictionaries (used by C14, C16, C17)."""

from __future__ import annotations

import random
from typing import Any

KEYS = ["a", "b", "c", "x", "y", "a.b", "x.y.z", "k_1", "type", "name", "a\\.b"]
SCALARS = [0, 1, 2, -5, 127, 128, True, False, None, "", "s", "t.u", "asyncio", [1, 2], [], [{"q": 1}], 1.5,
           # values that are not mappings although dict() would accept them: a list of pairs, of two-character strings,
           # of two-key mappings
           [["k", 1], ["m", 2]], ["ab", "cd"], [{"p": 1, "q": 2}]]


def gen_scalar(rng: random.Random) -> Any:
    v = rng.choice(SCALARS)
    return list(v) if isinstance(v, list) else v


def gen_dict(rng: random.Random, depth: int, width: int = 4, keys: list[str] | None = None,
             p_dict: float = 0.45) -> dict[str, Any]:
    keys = keys or KEYS
    n = rng.randint(0, width)
    out: dict[str, Any] = {}
    for k in rng.sample(keys, min(n, len(keys))):
        if depth > 0 and rng.random() < p_dict:
            out[k] = gen_dict(rng, depth - 1, width, keys, p_dict)
        else:
            out[k] = gen_scalar(rng)
    return out


def gen_overlapping(rng: random.Random, base: dict[str, Any], depth: int, keys: list[str] | None = None) -> dict[str, Any]:
    """A dictionary that collides with `base` often: dict/dict, dict/scalar, scalar/dict, new keys."""
    keys = keys or KEYS
    out: dict[str, Any] = {}
    items = list(base.items())
    rng.shuffle(items)
    for k, v in items:
        r = rng.random()
        if r < 0.35:
            continue
        if isinstance(v, dict) and r < 0.75 and depth > 0:
            out[k] = gen_overlapping(rng, v, depth - 1, keys)
        elif r < 0.85:
            out[k] = gen_scalar(rng)
        else:
            out[k] = gen_dict(rng, max(depth - 1, 0), 3, keys)
    for k in rng.sample(keys, rng.randint(0, 2)):
        if k not in out:
            out[k] = gen_dict(rng, max(depth - 1, 0), 3, keys) if rng.random() < 0.4 else gen_scalar(rng)
    return out


def depth_of(v: Any) -> int:
    if isinstance(v, dict):
        return 1 + max((depth_of(x) for x in v.values()), default=0)
    return 0


def all_small_dicts(keys: list[str], max_nodes: int) -> list[dict[str, Any]]:
    """All dictionaries with at most `max_nodes` nodes (a node = one key) over `keys`,
    scalar leaves drawn from {1, None}."""
    leaves: list[Any] = [1, None]
    memo: dict[int, list[dict[str, Any]]] = {}

    def build(budget: int) -> list[dict[str, Any]]:
        if budget in memo:
            return memo[budget]
        res: list[dict[str, Any]] = [{}]
        if budget >= 1:
            # choose ordered non-empty subsets of keys and values within budget
            def rec(avail: tuple[str, ...], left: int, cur: dict[str, Any]) -> None:
                for i, k in enumerate(avail):
                    rest = avail[:i] + avail[i + 1:]
                    if left < 1:
                        continue
                    for leaf in leaves:
                        d = dict(cur)
                        d[k] = leaf
                        res.append(d)
                        rec(rest, left - 1, d)
                    for sub in build(left - 1):
                        used = 1 + count_nodes(sub)
                        if used <= left:
                            d = dict(cur)
                            d[k] = sub
                            res.append(d)
                            rec(rest, left - used, d)

            rec(tuple(keys), budget, {})
        memo[budget] = res
        return res

    def count_nodes(d: dict[str, Any]) -> int:
        return sum(1 + (count_nodes(v) if isinstance(v, dict) else 0) for v in d.values())

    seen = set()
    out = []
    for d in build(max_nodes):
        key = repr(d)
        if key not in seen:
            seen.add(key)
            out.append(d)
    return out
