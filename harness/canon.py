"""Canonical encodings shared by the implementation side and the Lean driver."""

from __future__ import annotations

import json
from typing import Any


class ClsRef:
    """Stands for a Python class object with identity `n` inside generated configurations."""

    def __init__(self, n: int) -> None:
        self.n = n


def to_cfg(v: Any, cls_ids: dict[Any, int] | None = None) -> dict[str, Any]:
    """Python value -> Cfg wire format ({"d": [[k, v]…]} | {"n"} | {"s"} | {"c"} | {"o"})."""
    if isinstance(v, dict):
        return {"d": [[str(k), to_cfg(x, cls_ids)] for k, x in v.items()]}
    if v is None:
        return {"n": None}
    if isinstance(v, str):
        return {"s": v}
    if isinstance(v, ClsRef):
        return {"c": v.n}
    if isinstance(v, type) and cls_ids is not None and v in cls_ids:
        return {"c": cls_ids[v]}
    if isinstance(v, bytes):
        return {"o": "bytes:" + v.hex()}
    return {"o": json.dumps(v, sort_keys=True, default=repr)}


def from_cfg(c: dict[str, Any], classes: dict[int, Any] | None = None) -> Any:
    """Cfg wire format -> fresh Python value (lists etc. are re-created from their JSON)."""
    if "d" in c:
        return {k: from_cfg(v, classes) for k, v in c["d"]}
    if "n" in c:
        return None
    if "s" in c:
        return c["s"]
    if "c" in c:
        return classes[c["c"]] if classes is not None else ClsRef(c["c"])
    return json.loads(c["o"])
