"""
Component classes K0..K7 used by the C14 correspondence. Their behaviour (hard-coded
add_component calls, what they publish in prepare()/start(), whether the constructor
raises) is read from the per-case TABLE, so the same class objects (resolvable as a class,
as `harness.impl.compmod:Kn` and as entry point `epn`) serve every case.
"""

from __future__ import annotations

from typing import Any

from asphalt.core import Component, add_resource, add_resource_factory

TABLE: dict[int, dict[str, Any]] = {}
LOG: list[dict[str, Any]] = []       # constructor calls in order
INSTANCES: list[Any] = []
GENERATION = 0                       # KD0..KD7 are rebound to fresh subclasses of K0..K7 for every case


class NotAComponent:
    pass


class _Base(Component):
    n = -1

    def __init__(self, **kwargs: Any) -> None:
        spec = TABLE.get(self.n, {})
        self.idx = len(LOG)
        self.marker = type(f"M{self.idx}", (), {})
        LOG.append({"cls": self.n, "kwargs": kwargs, "gen": getattr(type(self), "gen", None)})
        INSTANCES.append(self)
        if spec.get("fails"):
            raise ValueError("constructor failure requested by the case")
        if self.idx % 3 == 0:
            super().__init__()      # a subclass may call the base initializer first, last, or not at all
        for alias, ty, kw in spec.get("children", []):
            self.add_component(alias, ty, **kw)
        if self.idx % 3 == 1:
            super().__init__()      # (cooperative mix-ins register their children and then hand on)

    def _publish(self, names: list[str]) -> None:
        # alternately a resource and a resource factory: the naming rule is the same for both
        for k, name in enumerate(names):
            if (k + self.idx) % 2:
                add_resource_factory(lambda: object(), name, types=[self.marker])
            else:
                add_resource(object(), name, types=[self.marker])

    # prepare()/start() are plain methods returning a coroutine (what a method wrapped by an ordinary synchronous
    # decorator looks like); every third instance publishes already when the method is *called*, before the
    # coroutine is awaited - that, too, is "added in start()" / "added in prepare()"
    def prepare(self) -> Any:
        return self._lifecycle(TABLE.get(self.n, {}).get("prepare_adds", []))

    def start(self) -> Any:
        return self._lifecycle(TABLE.get(self.n, {}).get("start_adds", []))

    def _lifecycle(self, names: list[str]) -> Any:
        if self.idx % 3 == 1:
            self._publish(names)
            names = []

        async def run() -> None:
            if self.idx % 4 == 2:
                # loads two small component trees of its own concurrently (plug-ins, say) before publishing; the one
                # launched first also finishes first
                import functools

                import anyio

                from asphalt.core import start_component

                async with anyio.create_task_group() as tg:
                    tg.start_soon(functools.partial(start_component, _Plugin, {"delay": 1}, timeout=None))
                    tg.start_soon(functools.partial(start_component, _Plugin, {"delay": 2}, timeout=None))
            if self.idx % 4 == 3:
                # does some of its set-up in a scratch context of its own, entered and left before it publishes
                from asphalt.core import Context

                async with Context() as scratch:
                    scratch.add_resource(object(), "scratch", types=[self.marker])
            self._publish(names)

        return run()


class _Plugin(Component):
    def __init__(self, delay: int) -> None:
        self.delay = delay

    async def start(self) -> None:
        import anyio

        await anyio.sleep(self.delay)


K0 = type("K0", (_Base,), {"n": 0})
K1 = type("K1", (_Base,), {"n": 1})
K2 = type("K2", (_Base,), {"n": 2})
K3 = type("K3", (_Base,), {"n": 3})
K4 = type("K4", (_Base,), {"n": 4})
K5 = type("K5", (_Base,), {"n": 5})
K6 = type("K6", (_Base,), {"n": 6})
K7 = type("K7", (_Base,), {"n": 7})
CLASSES = [K0, K1, K2, K3, K4, K5, K6, K7]
