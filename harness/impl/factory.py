"""Mode T driver for task factories (C09)."""

from __future__ import annotations

import sys
from typing import Any

import anyio

from . import vclock
from .kernel import EXN, TYPES, leaves

if sys.version_info < (3, 11):  # pragma: no cover
    from exceptiongroup import BaseExceptionGroup

import contextvars

CUR_TASK: contextvars.ContextVar[int] = contextvars.ContextVar("verif_cur_task")
TICK = 1.0


class OwnerFailed(Exception):
    """What the block of the context that owns the factory ends with, in some cases."""


class FactoryRun:
    def __init__(self, case: dict[str, Any]) -> None:
        self.case = case
        self.trace: list[dict[str, Any]] = []
        self.handles: dict[int, Any] = {}
        self.factory: Any = None
        self.factory_ctx: Any = None
        self.owner: Any = None
        self.specs = {s["h"]: s for s in case["specs"]}

    def log(self, *label: Any) -> None:
        self.trace.append({"l": list(label), "t": round(anyio.current_time() / TICK, 6)})

    def exc_task(self, exc: BaseException, default: int) -> int:
        # which task an exception came out of: written on the exception when it is raised - or, when several tasks raise
        # one and the same object, remembered by the task itself (the handler is consulted in the task that failed)
        return CUR_TASK.get(default) if self.case.get("shared_exc") else getattr(exc, "h", default)

    def make_exc(self, idx: int) -> BaseException:
        if not self.case.get("shared_exc"):
            return EXN[idx]()
        if not hasattr(self, "_excs"):
            self._excs: dict[int, BaseException] = {}
        return self._excs.setdefault(idx, EXN[idx]())

    def make_body(self, h: int) -> Any:
        from asphalt.core import current_context

        run = self
        spec = self.specs[h]

        delay = spec.get("startDelay")

        async def run_body(task_status: Any, called_in: Any = None) -> None:
            CUR_TASK.set(h)
            ctx = current_context()
            parent = ctx.parent
            if called_in is not None and called_in is not ctx:
                # the synchronous part of the task callable and the coroutine it returns belong to one task:
                # both run in the task's own context
                run.log("probeFailed", h, "the task callable was called outside the task's own context "
                                          "(current_context() differed between the call and the coroutine it returned)")
            if run.factory_ctx is None:
                run.factory_ctx = parent
            ok = parent is run.factory_ctx and parent is not None and parent.parent is run.owner
            saw = sorted(v.v for v in ctx.get_resources(TYPES[0]).values())
            run.log("taskBegan", h, ok, saw)
            slow_close = spec.get("close_ticks")
            if slow_close:
                # the task's own context has teardown work that takes time: the task has "ended" - for its handle, for
                # wait_finished(), for the handle set - only when that is done; that is where its end is logged
                async def closer(exc: BaseException | None) -> None:
                    with anyio.CancelScope(shield=True):
                        await anyio.sleep(slow_close * TICK)
                    idx = next((n for n, c in enumerate(EXN) if type(exc) is c), None)
                    run.log("taskEnded", h, idx)

                ctx.add_teardown_callback(closer, True)

            def ended(exc_idx: Any) -> None:
                if not slow_close:
                    run.log("taskEnded", h, exc_idx)

            for ch in spec.get("children", []):
                run.spawn(ch, "soon")
            cancelled = anyio.get_cancelled_exc_class()
            try:
                if task_status is not None:
                    # a task that takes `task_status`: start_task() returns only once it has called started()
                    await anyio.sleep(delay * TICK)
                    if spec.get("startFails") is not None:
                        # fails while it is still starting: before it has reported started()
                        run.log("taskEnded", h, spec["startFails"])
                        e = run.make_exc(spec["startFails"])
                        e.h = h
                        raise e
                    task_status.started(("started", h))
                    run.log("startedCalled", h)
                if "ends" in spec["beh"]:
                    await anyio.sleep((spec["beh"]["ends"] - (delay or 0)) * TICK)
                else:
                    await anyio.sleep_forever()
            except cancelled:
                run.log("cancelSeen", h)
                eoc = spec["beh"].get("excOnCancel")
                if eoc is not None:
                    # the task's clean-up fails: an Exception escapes a task that was cancelled through its handle
                    ended(eoc)
                    e = run.make_exc(eoc)
                    e.h = h
                    raise e from None
                ended(None)
                raise
            exc = spec["beh"].get("exc")
            ended(exc)
            if exc is not None:
                e = run.make_exc(exc)
                e.h = h
                raise e

        if delay:
            async def body(*, task_status: Any) -> None:
                await run_body(task_status)
        elif h % 3 == 0:
            # the `lambda: coro_fn(args)` idiom: a plain callable that returns the coroutine
            def body() -> Any:  # type: ignore[misc]
                return run_body(None, current_context())
        else:
            async def body() -> None:  # type: ignore[misc]
                await run_body(None)

        body.__name__ = f"t{h}"
        return body

    def spawn(self, h: int, via: str, cancel_now: bool = False) -> None:
        self.log("spawn", h)      # the handle exists from the moment of the call
        handle = self.factory.start_task_soon(self.make_body(h), f"t{h}")
        self.handles[h] = handle
        if cancel_now:
            handle.cancel()
            self.log("cancelReq", h)

    async def spawn_async(self, h: int) -> None:
        self.log("spawn", h)
        spec = self.specs[h]
        if spec.get("abandonAt") is not None:
            # the caller gives up waiting for started(): the start is abandoned and the half-started task is told
            # to stop (cancelled with its caller)
            self.log("cancelReq", h)
            with anyio.move_on_after(spec["abandonAt"] * TICK) as scope:
                await self.factory.start_task(self.make_body(h), f"t{h}")
            if not scope.cancelled_caught:
                self.log("probeFailed", h, "start_task() returned although the task had not called started() yet")
            return
        if spec.get("startFails") is not None:
            try:
                await self.factory.start_task(self.make_body(h), f"t{h}")
                self.log("probeFailed", h, "start_task() returned normally although the task failed before started()")
            except Exception:  # noqa: BLE001 - the task's own exception, or anyio's complaint after the handler swallowed it
                # (only if the task did run and fail: after an exception has taken the factory down start_task() fails
                # for a reason of its own, which is outside the statement)
                if any(e["l"][:2] == ["taskEnded", h] for e in self.trace):
                    self.log("startFailed", h)
            return
        handle = await self.factory.start_task(self.make_body(h), f"t{h}")
        self.handles[h] = handle
        want = ("started", h) if self.specs[h].get("startDelay") else None
        if getattr(handle, "start_value", "missing") != want or handle.name != f"t{h}":
            self.log("probeFailed", h, f"the handle returned by start_task() has name {handle.name!r} and start_value "
                                       f"{getattr(handle, 'start_value', 'missing')!r}; expected 't{h}' and {want!r}")

    def handler(self, exc: Exception) -> bool:
        e = next((n for n, c in enumerate(EXN) if type(exc) is c), 99)
        self.log("handlerCalled", self.exc_task(exc, -1), e)
        # "a truthy value": not only True; anything else - None (a handler that only logs), 0, an empty string … - is not
        verdicts: list[Any] = [True, 1, "handled", [0]] if self.case["handler"] else [False, None, 0, "", [], 0.0]
        return verdicts[self.exc_task(exc, 0) % len(verdicts)]      # type: ignore[no-any-return]

    async def waiter(self, h: int) -> None:
        await self.handles[h].wait_finished()
        self.log("waitReturned", h)

    async def service(self, rx: Any) -> None:
        """A service task of the owner that spawns on request (a spawner with its own context)."""
        async for h, via in rx:
            if via == "soon":
                self.spawn(h, via)
            else:
                await self.spawn_async(h)

    async def script(self, owner: Any, tg: Any) -> None:
        from asphalt.core import Context

        case = self.case
        for v in case["pre_res"]:
            owner.add_resource(TYPES[0](v), f"r{v}")
        tx, rx = anyio.create_memory_object_stream[tuple](100)
        await owner.start_service_task(lambda: self.service(rx), "spawner", teardown_action=tx.close)
        kw = {} if case["handler"] is None else {"exception_handler": self.handler}
        if case["handler"] is not None and case.get("handler_obj"):
            from .kernel import CallableObject

            kw = {"exception_handler": CallableObject(self.handler, falsy=case["handler_obj"] == "falsy")}
        if self.case.get("factory_via_shortcut"):
            from asphalt.core import start_background_task_factory

            self.factory = await start_background_task_factory(**kw)       # the owner is the current context here
        elif self.case.get("factory_from_nested"):
            # started on the owner while another (nested, short-lived) context is current: the factory still belongs to
            # the owner - its tasks inherit from the owner, it lives as long as the owner
            async with Context() as inner:
                inner.add_resource(TYPES[0](990), "inner_only")
                self.factory = await owner.start_background_task_factory(**kw)
        else:
            self.factory = await owner.start_background_task_factory(**kw)
        t0 = anyio.current_time()
        for step in case["script"]:
            await anyio.sleep_until(t0 + step["at"] * TICK)
            op = step["op"]
            if op == "spawn":
                h, via, frm = step["h"], step["via"], step["from"]
                if frm == "service":
                    tx.send_nowait((h, via))
                    await anyio.lowlevel.checkpoint()
                elif frm == "nested":
                    async with Context() as inner:
                        inner.add_resource(TYPES[0](900 + h), f"inner{h}")
                        if via == "soon":
                            self.spawn(h, via, step.get("cancelNow", False))
                        else:
                            await self.spawn_async(h)
                elif via == "soon":
                    self.spawn(h, via, step.get("cancelNow", False))
                elif self.specs[h].get("startDelay"):
                    # start_task() of a task that calls started() late: awaited by a helper so that the
                    # script goes on (and samples the handle set while the start is pending)
                    tg.start_soon(self.spawn_async, h)
                    await anyio.lowlevel.checkpoint()
                else:
                    await self.spawn_async(h)
            elif op == "observe":
                hs = self.factory.all_task_handles()
                names = sorted(int(x.name[1:]) for x in hs)
                self.log("observed", names)
                # the caller owns what it got: emptying it (a shutdown loop popping handles, say) is its business
                # and changes nothing for the factory
                if hasattr(hs, "clear"):
                    hs.clear()
            elif op == "cancel":
                if step["h"] in self.handles:
                    self.handles[step["h"]].cancel()
                    self.log("cancelReq", step["h"])
            elif op == "wait":
                if step["h"] in self.handles:
                    self.log("waitAsked", step["h"])
                    tg.start_soon(self.waiter, step["h"])
            elif op == "res":
                owner.add_resource(TYPES[0](step["v"]), f"late{step['v']}")
        await anyio.sleep_until(t0 + case["exit_at"] * TICK)
        self.log("exitBegin")
        if case.get("exit_exc"):
            # the owner's block ends with an exception of its own: the tasks still running are waited for all the same
            raise OwnerFailed()

    async def main(self) -> dict[str, Any]:
        import logging

        from asphalt.core import Context

        logging.disable(logging.CRITICAL)
        out: list[int] = []
        other = None
        hang = False
        try:
            with anyio.move_on_after(10.0 ** 7) as guard:
                async with anyio.create_task_group() as tg:
                    async with Context() as root:
                        if self.case.get("nested_owner"):
                            async with Context() as owner:
                                self.owner = owner
                                await self.script(owner, tg)
                            self.log("blockLeft")
                        else:
                            self.owner = root
                            await self.script(root, tg)
                    if not self.case.get("nested_owner"):
                        self.log("blockLeft")
            hang = guard.cancelled_caught
        except BaseException as e:  # noqa: BLE001
            if not any(x["l"][0] == "blockLeft" for x in self.trace):
                self.log("blockLeft")
            for x in leaves(e):
                idx = next((n for n, c in enumerate(EXN) if type(x) is c), None)
                if isinstance(x, OwnerFailed):
                    continue
                if idx is None:
                    other = repr(x)
                else:
                    out.append(idx)
        self.log("outcome", sorted(out))
        return {"trace": self.trace, "other_exception": other, "hang": hang}


def run_factory_case(case: dict[str, Any]) -> dict[str, Any]:
    r = FactoryRun(case)
    return vclock.run(r.main, backend=case.get("backend", "asyncio"))
