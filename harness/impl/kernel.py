"""
Director for the Context kernel (mode E): executes a list of model operations on the real
asphalt, one atomic step at a time, and returns the canonical output of every step.

Worker tasks (one per model TaskId) execute operations on command; `async with` blocks are
real `async with` statements (nested frames inside the worker), lookups through the async
API run in helper tasks so that a lookup suspended on a gated factory does not block its
worker; the director lets the event loop settle (`wait_all_tasks_blocked`) after every
operation, so the global order of atomic steps is the operation list.
"""

from __future__ import annotations

import contextvars
import os
import math
import sys
import typing
from typing import Any

import types as _types

import anyio
from anyio.lowlevel import checkpoint

if sys.version_info < (3, 11):  # pragma: no cover
    from exceptiongroup import BaseExceptionGroup

NTYPES = 6
# resource values: every third one is falsy (resources are arbitrary objects: empty containers, 0, …)
_CLASSES = [type(f"T{i}", (), {"__init__": lambda self, v=None: setattr(self, "v", v),
                               "__bool__": lambda self: (self.v or 0) % 3 != 0,
                               "__class_getitem__": classmethod(_types.GenericAlias)}) for i in range(NTYPES)]


class _Types(list):  # type: ignore[type-arg]
    """Resource types are written out where they are used: type 3 is a parametrized generic type (`T3[int]`), and
    every time it is written it is a new object that is equal to, not identical with, the last one."""

    def __getitem__(self, i: Any) -> Any:
        t = list.__getitem__(self, i)
        return _types.GenericAlias(t.__origin__, t.__args__) if isinstance(t, _types.GenericAlias) else t


# (… and type 2 is that alias's origin class: `T2` and `T2[int]` are two different keys)
TYPES = _Types(_CLASSES[:3] + [_CLASSES[2][int]] + _CLASSES[4:])
TYPE_ID = {**{t: i for i, t in enumerate(_CLASSES)}, **{t: i for i, t in enumerate(TYPES)}}
# exception classes user code raises: a plain one, subclasses of two builtins the library itself
# raises and handles (LookupError: ResourceNotFound; RuntimeError), and the builtin TimeoutError (which
# the library also raises itself for a start-up time-out)
EXN = [type("Exn0", (Exception,), {}), type("Exn1", (LookupError,), {}), type("Exn2", (RuntimeError,), {}),
       TimeoutError]
# (… and BaseExceptions: two of the harness's own and GeneratorExit - a block inside an asynchronous generator that
# is closed early, `aclosing()`, `break` in an `async for`, ends with it)
BASE = [type(f"Base{i}", (BaseException,), {}) for i in range(2)] + [GeneratorExit]
ACTIVE_CTX: contextvars.ContextVar[int | None] = contextvars.ContextVar("verif_active_ctx", default=None)
ACTIVE_TASK: contextvars.ContextVar[int | None] = contextvars.ContextVar("verif_active_task", default=None)


class CallableObject:
    """"Any callable": an instance with __call__ instead of a function; its truth value may be False
    (an empty registry / pool object that is also callable)."""

    def __init__(self, fn: Any, falsy: bool) -> None:
        self.fn = fn
        self.falsy = falsy

    def __call__(self, *args: Any, **kwargs: Any) -> Any:
        return self.fn(*args, **kwargs)

    def __bool__(self) -> bool:
        return not self.falsy

    # … and two of them compare equal (value objects, bound methods of one object): equal is not the same
    def __eq__(self, other: object) -> bool:
        return isinstance(other, CallableObject)

    def __hash__(self) -> int:
        return 7


class Temp:
    """A helper object made on the spot whose bound method is what gets registered (`Helper(...).close`): once registered,
    the registration is the only thing that refers to it."""

    def __init__(self, fn: Any) -> None:
        self.fn = fn

    def call(self, *args: Any, **kwargs: Any) -> Any:
        return self.fn(*args, **kwargs)


class Names(str, __import__("enum").Enum):
    """Resource names given as members of a str-mixin Enum: equal to (and hashing like) the plain string, with a
    `str()` of their own (`'Names.A'`)."""
    A = "a"


def as_given(name: Any) -> Any:
    return Names.A if name == "a" and type(name) is str else name


_REQ: dict[type, type] = {}


def _request_context_class(base: type) -> type:
    if base not in _REQ:
        _REQ[base] = type("RequestContext", (base,), {})
    return _REQ[base]


class FactoryError(Exception):
    pass


def factory_failure(fid: int) -> Exception:
    """What a failing factory raises: an exception of its own, or (odd ids) a ResourceNotFound - e.g. because the
    factory looked for something that is not there. Either way it is the factory's failure, not "no such resource"."""
    if fid % 2:
        from asphalt.core import ResourceNotFound

        class FactoryLookupFailure(ResourceNotFound):
            pass

        FactoryLookupFailure.__name__ = "FactoryError"
        e = FactoryLookupFailure(object, f"needed_by_factory_{fid}")
        e.from_factory = True
        return e
    return FactoryError()


class GenObj:
    def __init__(self, c: int, fid: int, n: int) -> None:
        self.key = (c, fid, n)

    def __bool__(self) -> bool:      # some factory products are falsy too
        return self.key[1] % 3 != 0


class Awaitable:
    """A non-coroutine awaitable (what e.g. `agen.aclose()` or a Future is to a teardown callback)."""

    def __init__(self, coro: Any) -> None:
        self.coro = coro

    def __await__(self) -> Any:
        return self.coro.__await__()


def _immutable(self: Any, name: str, value: Any) -> None:
    raise AttributeError(f"cannot assign to field {name!r}")       # (what a frozen dataclass does)


# user exceptions whose class refuses attribute assignment (frozen dataclasses, slotted classes): nobody has any
# business writing to an exception a callback raised
FROZEN_EXN = [type(c.__name__, (c,), {"__setattr__": _immutable}) for c in EXN]


def exc_name(e: BaseException | None) -> str:
    if e is None:
        return "None"
    for i, c in enumerate(EXN):
        if type(e) is c or type(e) is FROZEN_EXN[i]:
            return f"exn{i}"
    for i, c in enumerate(BASE):
        if type(e) is c:
            return f"base{i}"
    if isinstance(e, FactoryError) or getattr(e, "from_factory", False):
        return "exn0"
    from anyio import get_cancelled_exc_class

    try:
        if isinstance(e, get_cancelled_exc_class()):
            return "cancelled"
    except Exception:  # noqa: BLE001
        pass
    return "other:" + type(e).__name__


def make_exc(spec: dict[str, Any], frozen: bool = False) -> BaseException:
    if frozen and spec["k"] == "exn":
        return FROZEN_EXN[spec["n"]]()
    return (EXN if spec["k"] == "exn" else BASE)[spec["n"]]()


def spec_name(spec: dict[str, Any] | None) -> str:
    return "ok" if spec is None else f"{spec['k']}{spec['n']}"


def leaves(e: BaseException) -> list[BaseException]:
    if isinstance(e, BaseExceptionGroup):
        out: list[BaseException] = []
        for x in e.exceptions:
            out += leaves(x)
        return out
    return [e]


def leaf_groups(e: BaseException) -> int:
    """Number of distinct groups that directly contain a non-group exception."""
    if not isinstance(e, BaseExceptionGroup):
        return 0
    n = 1 if any(not isinstance(x, BaseExceptionGroup) for x in e.exceptions) else 0
    return n + sum(leaf_groups(x) for x in e.exceptions)


def val_name(v: Any) -> str:
    if v is None:
        return "none"
    if isinstance(v, GenObj):
        return "val g%d.%d.%d" % v.key
    if type(v) in TYPE_ID:
        return f"val s{v.v}"
    return "val ?" + repr(v)


class Kernel:
    def __init__(self, case: dict[str, Any]) -> None:
        self.case = case
        self.ctxs: dict[int, Any] = {}
        self.ctx_ids: dict[int, int] = {}          # id(obj) -> model id
        self.events: list[str] = []
        self.results: dict[int, list[str]] = {}
        self.workers: dict[int, Worker] = {}
        self.gates: dict[tuple[int, int], Any] = {}
        self.get_scopes: dict[int, Any] = {}            # label of a suspended async lookup -> its cancel scope
        self.ctxtd_fn: Any = None
        self.fns: dict[int, Any] = {}
        self.cb_runs: dict[tuple[int, int], int] = {}
        self.comp_ctx: dict[int, int] = {}              # id of a component's own context -> the context of its block
        self.comp_keep: list[Any] = []
        self.freed_ids: set[int] = set()                # addresses of contexts that were dropped (`forget`)
        self.listen_scopes: dict[int, Any] = {}
        self.picky_scopes: dict[int, Any] = {}
        self.deferred: dict[int, tuple[Any, dict[str, Any]]] = {}   # lookups whose coroutine exists but has not been awaited
        self.calls: dict[tuple[int, int], int] = {}
        self.tdlog: list[str] = []
        self.mid: dict[int, tuple[int, Any]] = {}       # context -> (callback during which its scope is cancelled, scope)
        self.tg: Any = None
        self.opidx = -1
        self.pair_fns: dict[int, Any] = {}
        self.scope_fns: dict[int, list[Any]] = {}
        self.inject_ctx: dict[int, int | None] = {}
        self.helper_results: list[tuple[int, int, list[str]]] = []   # (opidx, task, result) of finished async lookups
        self.gen_calls: list[tuple[int, int, int, int | None]] = []  # (opidx, ctx, fid, task) of factory calls

    # ------------------------------------------------------------------ user code given to asphalt
    def make_factory(self, spec: dict[str, Any]) -> Any:
        kern = self
        fid = spec["fid"]

        def begin() -> tuple[int, int]:
            c = ACTIVE_CTX.get()
            assert c is not None, "factory called outside a director operation"
            n = kern.calls.get((c, fid), 0)
            kern.calls[(c, fid)] = n + 1
            kern.gen_calls.append((kern.opidx, c, fid, ACTIVE_TASK.get()))
            return c, n

        if spec["async"]:
            async def afactory():  # type: ignore[no-untyped-def]  # no return annotation on purpose
                c, n = begin()
                if spec["gated"]:
                    gate = kern.gates[(c, fid)] = anyio.Event()
                    try:
                        await gate.wait()
                    except anyio.get_cancelled_exc_class():
                        if kern.gates.get((c, fid)) is gate:        # the lookup that called the factory was cancelled
                            del kern.gates[(c, fid)]
                        raise
                else:
                    await checkpoint()
                if n < spec["failFirst"]:
                    raise factory_failure(fid)
                return GenObj(c, fid, n)

            fn: Any = afactory
            if spec.get("annot") or not spec.get("types"):
                pass        # the return annotation is read from the function itself
            elif fid % 3 == 1:
                # an asynchronous factory that is not an `async def` function: a callable object
                class AsyncCallable:
                    async def __call__(self) -> Any:
                        return await afactory()

                fn = AsyncCallable()
            elif fid % 3 == 2:
                # … or a plain function returning the coroutine of an async helper
                fn = lambda: afactory()  # noqa: E731
        else:
            def sfactory():  # type: ignore[no-untyped-def]
                c, n = begin()
                if n < spec["failFirst"]:
                    raise factory_failure(fid)
                return GenObj(c, fid, n)

            fn = sfactory
            if spec.get("types") and not spec.get("annot") and fid % 4 >= 2:
                fn = CallableObject(sfactory, falsy=fid % 4 == 3)
        if spec.get("annot"):
            ts = [TYPES[i] for i in spec["types"]]
            fn.__annotations__ = {"return": ts[0] if len(ts) == 1 else typing.Union[tuple(ts)]}
        return fn

    def make_cb(self, spec: dict[str, Any], cid: int) -> Any:
        kern = self

        def begin(args: tuple[Any, ...]) -> Any:
            ctx = kern.ctxs[cid]
            arg = "-" if not spec["pass"] else exc_name(args[0]) if args else "missing"
            n = kern.cb_runs[(cid, spec["id"])] = kern.cb_runs.get((cid, spec["id"]), 0) + 1
            if n > 3:
                # invoked again and again: say so, and stop feeding the loop (no body, no registrations)
                kern.tdlog.append(f"td+ {spec['id']} RUNAWAY")
                return None
            kern.tdlog.append(f"td+ {spec['id']} {arg}")
            if ctx.closed is not True:
                # `closed` is true from the moment teardown begins
                kern.tdlog.append(f"CLOSED-FLAG {ctx.closed!r} inside teardown callback {spec['id']}")
            return ctx

        def finish(ctx: Any, outs: list[str]) -> None:
            if outs:
                kern.tdlog.append("body [" + ", ".join(outs) + "]")
            for r in spec["regs"]:
                ctx.add_teardown_callback(kern.make_cb(r, cid), r["pass"])

        def run(args: tuple[Any, ...]) -> None:
            ctx = begin(args)
            if ctx is None:
                return
            outs: list[str] = []
            for b in spec["body"]:
                outs += kern.body_op(ctx, cid, b)
            finish(ctx, outs)

        async def arun(args: tuple[Any, ...]) -> None:
            # the same in an asynchronous callback, which may also *await* a lookup
            ctx = begin(args)
            if ctx is None:
                return
            outs: list[str] = []
            for b in spec["body"]:
                outs += await kern.body_get(ctx, cid, b) if b["op"] == "get" else kern.body_op(ctx, cid, b)
            finish(ctx, outs)

        def tail(args: tuple[Any, ...]) -> None:
            if spec.get("reraise") and spec["pass"] and args:
                # raises the very object it was handed (the exception that ended the block), if any
                kern.tdlog.append(f"td- {spec['id']} {'ok' if args[0] is None else exc_name(args[0])}")
                if args[0] is not None:
                    raise args[0]
                return
            kern.tdlog.append(f"td- {spec['id']} {spec_name(spec['raises'])}")
            if spec["raises"] is not None:
                raise make_exc(spec["raises"], frozen=spec["id"] % 2 == 0)

        def cancelled_at_first_checkpoint(args: tuple[Any, ...]) -> None:
            # the awaitable was invoked and then cancelled before it could do anything
            arg = "-" if not spec["pass"] else exc_name(args[0]) if args else "missing"
            kern.tdlog.append(f"td+ {spec['id']} {arg}")
            kern.tdlog.append(f"td- {spec['id']} cancelled")

        if spec["async"]:
            async def acb(*args: Any) -> None:
                try:
                    await checkpoint()
                except anyio.get_cancelled_exc_class():
                    cancelled_at_first_checkpoint(args)
                    raise
                await arun(args)
                mid = kern.mid.get(cid)
                if mid is not None and mid[0] == spec["id"]:
                    # the scope around the block is cancelled while this callback is running (it has done its
                    # work and is waiting for something): it ends with the cancellation
                    kern.mid.pop(cid)
                    mid[1].cancel()
                    try:
                        for _ in range(3):
                            await checkpoint()
                    except anyio.get_cancelled_exc_class():
                        kern.tdlog.append(f"td- {spec['id']} cancelled")
                        raise
                    kern.tdlog.append("NOT-CANCELLED")
                tail(args)

            if spec["id"] % 2:
                # a plain function returning a non-coroutine awaitable: must be awaited just the same
                return lambda *args: Awaitable(acb(*args))
            if spec["id"] % 6 == 4:
                return CallableObject(acb, falsy=True)
            if spec["id"] % 6 == 2:
                return Temp(acb).call
            return acb

        def cb(*args: Any) -> None:
            run(args)
            mid = kern.mid.get(cid)
            if mid is not None and mid[0] == spec["id"]:
                # a synchronous callback cancels the scope around the block itself: nothing can interrupt it, it ends
                # as written; what is still to run runs in a cancelled scope
                kern.mid.pop(cid)
                mid[1].cancel()
            tail(args)

        if spec["id"] % 5 in (3, 4):
            return CallableObject(cb, falsy=spec["id"] % 5 == 4)
        if spec["id"] % 5 == 2:
            return Temp(cb).call
        return cb

    async def body_get(self, ctx: Any, cid: int, b: dict[str, Any]) -> list[str]:
        tok = ACTIVE_CTX.set(cid)
        try:
            try:
                return [val_name(await ctx.get_resource(TYPES[b["ty"]], b["name"], optional=b["opt"]))]
            except Exception as e:  # noqa: BLE001
                return self.exc_out(e, (TYPES[b["ty"]], b["name"]))
        finally:
            ACTIVE_CTX.reset(tok)

    def body_op(self, ctx: Any, cid: int, b: dict[str, Any]) -> list[str]:
        n0 = len(self.events)
        tok = ACTIVE_CTX.set(cid)
        try:
            if b["op"] == "get":
                return ["badOp"]        # (only an asynchronous callback can await)
            if b["op"] == "add":
                r = self.guard(lambda: ctx.add_resource(TYPES[0](b["v"]), b["name"], [TYPES[i] for i in b["types"]]))
            elif b["op"] == "addf":
                fn = self.make_factory({"fid": b["fid"], "async": False, "gated": False, "failFirst": 0})
                r = self.guard(lambda: ctx.add_resource_factory(fn, b["name"], types=[TYPES[i] for i in b["types"]]))
            elif b["op"] == "getnw":
                r = self.guard(lambda: ctx.get_resource_nowait(TYPES[b["ty"]], b["name"], optional=b["opt"]), val=True)
            else:
                from asphalt.core import current_context

                r = [self.cur_name(current_context)]
        finally:
            ACTIVE_CTX.reset(tok)
        # events dispatched synchronously inside the body are seen by the listener later; the
        # director orders them after the step's other outputs, the model lists them inline
        return r

    def cur_name(self, current_context: Any) -> str:
        from asphalt.core import NoCurrentContext

        try:
            c = current_context()
        except NoCurrentContext:
            return "noCurrent"
        return f"cur {self.name_of(c)}"

    def name_of(self, ctx: Any) -> str:
        if ctx is None:
            return "None"
        if id(ctx) in self.comp_ctx:
            return str(self.comp_ctx[id(ctx)])      # a component's own context stands for the context its tree was started in
        return str(self.ctx_ids.get(id(ctx), "?"))

    def exc_out(self, e: BaseException, want: tuple[Any, str] | None = None) -> list[str]:
        from asphalt.core import AsyncResourceError, NoCurrentContext, ResourceConflict, ResourceNotFound

        if getattr(e, "from_factory", False):
            return ["raisedExc exn0"]       # a ResourceNotFound raised by a factory is the factory's failure
        if isinstance(e, ResourceConflict):
            return ["conflict"]
        if isinstance(e, ResourceNotFound):
            # the exception says which resource was asked for
            if want is not None and (getattr(e, "type", None) != want[0] or getattr(e, "name", None) != want[1]):
                return [f"notFound WRONG-KEY({getattr(e, 'name', None)!r})"]
            return ["notFound"]
        if isinstance(e, AsyncResourceError):
            return ["asyncError"]
        if isinstance(e, NoCurrentContext):
            return ["noCurrent"]
        if isinstance(e, ValueError):
            return ["argError"]     # (which class an invalid argument is rejected with is not the properties' business)
        if isinstance(e, TypeError):
            return ["argError"]
        if isinstance(e, FactoryError):
            return ["raisedExc exn0"]
        if isinstance(e, RuntimeError):
            return [self.rt_name(e)]
        return ["HARNESS-EXC " + repr(e)]

    def guard(self, fn: Any, val: bool = False, want: tuple[Any, str] | None = None) -> list[str]:
        try:
            r = fn()
        except Exception as e:  # noqa: BLE001
            return self.exc_out(e, want)
        return [val_name(r)] if val else ["ok"]

    @staticmethod
    def rt_name(e: RuntimeError) -> str:
        # an operation refused because of the context's lifecycle state; the wording of the message (which names
        # the state) is not behaviour
        return "runtimeError"

    # ------------------------------------------------------------------ @inject
    ANNOT = {
        "plain": "T{ty}", "str": "'T{ty}'", "optional": "Optional[T{ty}]", "pep604": "T{ty} | None",
        "str604": "'T{ty} | None'", "union": "Union[T{ty}, None]", "badunion": "Union[T{ty}, T{ty2}]",
        "optstr": "Optional['T{ty}']", "unionstr": "Union['T{ty}', None]", "stropt": "'Optional[T{ty}]'",
        "str604b": "'None | T{ty}'",
    }

    def build_function(self, params: list[dict[str, Any]], is_async: bool, future: bool = True,
                       local_names: bool = False, late: bool = False) -> Any:
        """params: name, kind (posonly|normal|kwonly), dflt (none|value|marker|uncalled), mname,
        annot (form or None), ty."""
        import asphalt.core as ac

        def render(p: dict[str, Any]) -> str:
            s = p["name"]
            if p.get("annot"):
                a = self.ANNOT[p["annot"]].format(ty=p.get("ty", 0), ty2=(p.get("ty", 0) + 1) % NTYPES)
                if local_names:
                    import re

                    a = re.sub(r"T(\d)", r"L\1", a)
                s += ": " + a
            d = p.get("dflt", "none")
            if d == "value":
                s += " = 5"
            elif d == "marker":
                s += f" = resource({p.get('mname', 'default')!r})"
            elif d == "uncalled":
                s += " = resource"
            return s

        pos = [render(p) for p in params if p["kind"] == "posonly"]
        normal = [render(p) for p in params if p["kind"] == "normal"]
        kwonly = [render(p) for p in params if p["kind"] == "kwonly"]
        sig = ", ".join(pos + (["/"] if pos else []) + normal + (["*"] if kwonly else []) + kwonly)
        src = f"{'async ' if is_async else ''}def fn({sig}):\n    return dict(locals())\n"
        # (with local_names the classes are NOT in the function's globals: only the decorating frame's locals have them)
        # (with late the classes are defined in the function's module only later: kernel.define_types(fn))
        ns: dict[str, Any] = {} if local_names or late else {f"T{i}": t for i, t in enumerate(TYPES)}
        ns.update({"resource": ac.resource, "Optional": typing.Optional, "Union": typing.Union})
        # with / without `from __future__ import annotations` in the defining module: annotations are
        # all strings, or real objects that may still contain quoted forward references
        code = compile(("from __future__ import annotations\n" if future else "") + src, "<generated>", "exec",
                       dont_inherit=True)
        exec(code, ns)  # noqa: S102 - generated signature
        return ns["fn"]

    def do_decorate(self, cmd: dict[str, Any]) -> list[str]:
        import warnings

        import asphalt.core as ac

        try:
            fn = self.build_function(cmd["params"], cmd.get("async", False), cmd.get("future", True))
        except SyntaxError as e:
            return ["HARNESS-SYNTAX " + str(e)]
        with warnings.catch_warnings(record=True) as wlist:
            warnings.simplefilter("always")
            try:
                ac.inject(fn)
            except TypeError:
                return ["argError"]
        if any(issubclass(w.category, UserWarning) for w in wlist):
            # inject() warns - a UserWarning, whatever its wording and whichever frame it is attributed to (stacklevel) -
            # when there is nothing to inject
            return ["warnNoInject"]
        return ["ok"]

    @staticmethod
    def params_of(cmd: dict[str, Any]) -> list[dict[str, Any]]:
        params = []
        for o in cmd["others"]:
            params.append({"name": o["name"], "kind": o["kind"], "dflt": "value" if o["has_default"] else "none"})
        for d in cmd["deps"]:
            params.append({"name": d["param"], "kind": d.get("kind", "normal"), "dflt": "marker", "mname": d["name"],
                           "annot": d.get("form", "plain"), "ty": d["ty"]})
        # parameters without defaults must precede those with defaults among positional ones
        params.sort(key=lambda p: (p["kind"] != "normal", p["kind"] == "normal" and p["dflt"] != "none"))
        return params

    def decorate_in_one_scope(self, mates: list[dict[str, Any]]) -> list[Any]:
        """Several injected functions defined and decorated inside one enclosing function, all before any of them is
        called; their (string) annotations name classes that exist only as locals of that function."""
        import asphalt.core as ac

        fns = [self.build_function(self.params_of(m), m["async"], True, local_names=True) for m in mates]
        for f in fns:
            f.__qualname__ = "enclosing.<locals>.fn"    # what `def fn(...)` written inside `enclosing` would have

        def enclosing() -> list[Any]:
            L0, L1, L2, L3 = TYPES[:4]  # noqa: F841, N806 - looked up through this frame's locals by inject()
            return [ac.inject(f) for f in fns]

        return enclosing()

    async def do_inject(self, cmd: dict[str, Any]) -> list[str]:
        import asphalt.core as ac

        params = self.params_of(cmd)
        if "scope" in cmd:
            if cmd["scope"] not in self.scope_fns:
                self.scope_fns[cmd["scope"]] = self.decorate_in_one_scope(cmd["mates"])
            fn = self.scope_fns[cmd["scope"]][cmd["me"]]
        elif "pair" in cmd and cmd["pair"] in self.pair_fns:
            fn = self.pair_fns[cmd["pair"]]     # the very same decorated function as the other call of the pair
        elif "fn" in cmd and cmd["fn"] in self.fns:
            fn = self.fns[cmd["fn"]]       # called before (in another context, most likely): the very same function
        else:
            late = bool(cmd.get("late")) and cmd.get("future", True) and bool(cmd["deps"])
            raw = self.build_function(params, cmd["async"], cmd.get("future", True), late=late)
            fn = ac.inject(raw)
            if "pair" in cmd:
                self.pair_fns[cmd["pair"]] = fn
            if "fn" in cmd:
                self.fns[cmd["fn"]] = fn
            if late:
                # the function is called once before the classes its (postponed) annotations name exist in its
                # module - that call fails with NameError while resolving them, before anything is looked up -
                # and again, below, once they do: the second call is an ordinary injected call
                try:
                    early = fn(*[object()] * sum(1 for p in params if p["kind"] == "normal" and p["dflt"] == "none"),
                               **{p["name"]: object() for p in params if p["kind"] == "kwonly" and p["dflt"] == "none"})
                    if cmd["async"]:
                        early = await early
                    return [f"EARLY-CALL-BAD returned {early!r}"]
                except NameError:
                    pass
                except Exception as e:  # noqa: BLE001
                    return [f"EARLY-CALL-BAD raised {type(e).__name__}"]
                raw.__globals__.update({f"T{i}": t for i, t in enumerate(TYPES)})
        sentinels = {o["name"]: object() for o in cmd["others"] if not o["has_default"] or o.get("pass")}
        args = [sentinels[p["name"]] for p in params if p["kind"] == "normal" and p["name"] in sentinels
                and p["dflt"] == "none"]
        kwargs = {n: v for n, v in sentinels.items() if n not in
                  [p["name"] for p in params if p["kind"] == "normal" and p["dflt"] == "none"]}
        c = None
        try:
            cc = ac.current_context()
            c = self.ctx_ids.get(id(cc), self.comp_ctx.get(id(cc)))
        except ac.NoCurrentContext:
            pass
        self.inject_ctx[cmd.get("i", -1)] = c
        tok = ACTIVE_CTX.set(c)
        tok2 = ACTIVE_TASK.set(cmd["t"])
        try:
            try:
                got = fn(*args, **kwargs)
                if cmd["async"]:
                    got = await got
            except Exception as e:  # noqa: BLE001
                return self.exc_out(e)
        finally:
            ACTIVE_CTX.reset(tok)
            ACTIVE_TASK.reset(tok2)
        out = [f"arg {d['param']}={val_name(got[d['param']])[4:] if got[d['param']] is not None else 'none'}"
               for d in cmd["deps"]]
        for n, v in sentinels.items():
            if got.get(n) is not v:
                out.append(f"PASSTHROUGH-BAD {n}")
        for o in cmd["others"]:
            if o["has_default"] and not o.get("pass") and got.get(o["name"]) != 5:
                out.append(f"DEFAULT-BAD {o['name']}")
        return out + ["called"]

    # ------------------------------------------------------------------ listeners
    async def listener(self, cid: int, ctx: Any, started: Any) -> None:
        with anyio.CancelScope() as self.listen_scopes[cid]:
            async with ctx.resource_added.stream_events(max_queue_size=1000) as stream:
                started.set()
                async for ev in stream:
                    # (the order of the types inside an event is nobody's promise: sorted)
                    types = ",".join(str(n) for n in sorted(TYPE_ID.get(t, 99) for t in ev.resource_types))
                    ok = ev.source is ctx and ev.topic == "resource_added" and isinstance(ev.time, float)
                    self.events.append(
                        f"ev {cid} [{types}] {str.__str__(ev.resource_name) if isinstance(ev.resource_name, str) else ev.resource_name} {ev.resource_description or '-'} "
                        f"{'f' if ev.is_factory else 'r'}" + ("" if ok else " BADSTAMP"))
        del ctx

    async def picky_listener(self, cid: int, ctx: Any, started: Any) -> None:
        """Somebody else's listener on the same signal, with a filter that only copes with described resources: what
        goes wrong in it is its own business (it starts over), not the publisher's nor the other listeners'."""
        with anyio.CancelScope() as self.picky_scopes[cid]:
            while True:
                try:
                    async with ctx.resource_added.stream_events(lambda ev: ev.resource_description.startswith("zz"),
                                                                max_queue_size=1000) as stream:
                        started.set()
                        async for _ in stream:
                            pass
                except AttributeError:
                    await checkpoint()
        del ctx

    async def settle(self) -> None:
        """Let everything run until nothing can. (On asyncio a task that has just finished wakes whoever waits for it
        through a loop callback, which wait_all_tasks_blocked() does not see: look again after yielding.)"""
        for _ in range(3):
            await anyio.wait_all_tasks_blocked()
            await checkpoint()
        await anyio.wait_all_tasks_blocked()

    async def forget(self, c: int) -> None:
        """Nothing refers to context c any more (its block has been left): drop it, so that its memory can be reused."""
        import gc

        ctx = self.ctxs.pop(c, None)
        if ctx is None:
            return
        sc = self.listen_scopes.pop(c, None)
        if sc is not None:
            sc.cancel()
        sc = self.picky_scopes.pop(c, None)
        if sc is not None:
            sc.cancel()
        self.ctx_ids.pop(id(ctx), None)
        self.freed_ids.add(id(ctx))
        del ctx
        await anyio.wait_all_tasks_blocked()
        gc.collect()

    # ------------------------------------------------------------------ main
    async def main(self) -> list[dict[str, Any]]:
        out: list[dict[str, Any]] = []
        async with anyio.create_task_group() as tg:
            self.tg = tg
            w0 = self.workers[0] = Worker(self, 0)
            tg.start_soon(w0.main)
            await anyio.wait_all_tasks_blocked()
            ops = self.case["ops"]
            skip = False
            for i, op in enumerate(ops):
                if skip:
                    skip = False
                    continue
                if op["op"] == "inject" and op.get("first") and i + 1 < len(ops) and ops[i + 1].get("pair") == op.get("pair"):
                    # two calls of one injected function, made concurrently by two tasks in different contexts
                    self.opidx = i
                    n_ev = len(self.events)
                    await self.dispatch(i, op)
                    await self.dispatch(i + 1, ops[i + 1])
                    await self.settle()
                    evs = self.events[n_ev:]
                    c1 = self.inject_ctx.get(i)
                    mine = [e for e in evs if e.startswith(f"ev {c1} ")]
                    out.append({"res": list(self.results.get(i, ["blocked"])), "ev": mine})
                    out.append({"res": list(self.results.get(i + 1, ["blocked"])), "ev": [e for e in evs if e not in mine]})
                    skip = True
                    continue
                self.opidx = i
                n_ev = len(self.events)
                n_help = len(self.helper_results)
                await self.dispatch(i, op)
                await self.settle()
                res = list(self.results.get(i, ["blocked"]))
                # async lookups of earlier operations that returned during this step
                late = sorted((t, r) for (j, t, r) in self.helper_results[n_help:] if j != i)
                res += [f"task {t} [{', '.join(r)}]" for t, r in late]
                rec: dict[str, Any] = {"res": res, "ev": self.events[n_ev:]}
                if op["op"] == "exit" and op.get("forget"):
                    await self.forget(op["c"])
                if op["op"] == "cancelget":
                    nxt = [t for (j, c, f, t) in self.gen_calls if j == i and c == op["c"]]
                    if nxt:
                        rec["next"] = nxt[0]
                if op["op"] == "finish":
                    nxt = [t for (j, c, f, t) in self.gen_calls if j == i and c == op["c"] and f == op["fid"]]
                    if nxt:
                        rec["next"] = nxt[0]
                out.append(rec)
            for w in self.workers.values():
                w.send({"op": "quit"})
            await anyio.wait_all_tasks_blocked()
            tg.cancel_scope.cancel()
        return out

    async def dispatch(self, i: int, op: dict[str, Any]) -> None:
        kind = op["op"]
        if kind == "finish":
            gate = self.gates.pop((op["c"], op["fid"]), None)
            if gate is None:
                self.results[i] = ["badOp"]
            else:
                gate.set()
                self.results[i] = []
            return
        if kind == "cancelget":
            sc = self.get_scopes.get(op["lid"])
            if sc is None:
                self.results[i] = ["badOp"]
            else:
                sc.cancel()
                self.results[i] = []
            return
        if kind == "new" and op["c"] in self.ctxs:
            self.results[i] = ["badOp"]
            return
        w = self.workers.get(op.get("t", 0))
        if w is None or (kind == "spawn" and op["t2"] in self.workers):
            self.results[i] = ["badOp"]
            return
        w.send({**op, "i": i})
        if kind == "new":
            await anyio.wait_all_tasks_blocked()
            ctx = self.ctxs.get(op["c"])
            if ctx is not None:
                if op["c"] % 2 == 0:
                    started = anyio.Event()
                    self.tg.start_soon(self.picky_listener, op["c"], ctx, started)
                    await started.wait()
                started = anyio.Event()
                self.tg.start_soon(self.listener, op["c"], ctx, started)
                await started.wait()


class Worker:
    def __init__(self, kern: Kernel, t: int) -> None:
        self.kern = kern
        self.t = t
        self.send_stream, self.recv_stream = anyio.create_memory_object_stream[dict](math.inf)
        self.left_early: dict[int, list[str]] = {}

    def send(self, cmd: dict[str, Any]) -> None:
        self.send_stream.send_nowait(cmd)

    async def main(self) -> None:
        await self.frame(None)

    async def frame(self, cid: int | None) -> dict[str, Any] | None:
        """Execute commands until this frame's context is to be left (or quit)."""
        kern = self.kern
        while True:
            cmd = await self.recv_stream.receive()
            op = cmd["op"]
            if op == "quit":
                if cid is None:
                    return None
                # leave remaining blocks normally
                self.send(cmd)
                return {"i": -1, "end": {"k": "ret"}}
            if op == "exit":
                if cmd["c"] in self.left_early:
                    kern.results[cmd["i"]] = self.left_early.pop(cmd["c"])
                    continue
                if cid != cmd["c"]:
                    kern.results[cmd["i"]] = ["badOp"]
                    continue
                return cmd
            if op == "enter":
                if cmd["c"] not in kern.ctxs:
                    kern.results[cmd["i"]] = ["badOp"]
                    continue
                if cmd.get("manual"):
                    # entered by hand (`await ctx.__aenter__()`) and never left: it stays this task's current
                    # context, and an open child of its parent, from now on
                    try:
                        await kern.ctxs[cmd["c"]].__aenter__()
                        kern.results[cmd["i"]] = ["ok"]
                    except RuntimeError as e:
                        kern.results[cmd["i"]] = [kern.rt_name(e)]
                    continue
                await self.block(cmd)
                continue
            try:
                res = await self.simple(cmd)
            except BaseException as e:  # noqa: BLE001
                if type(e).__name__ in ("Cancelled", "CancelledError"):
                    raise
                res = ["HARNESS-EXC " + repr(e)]
            if res is not None:
                kern.results[cmd["i"]] = res

    async def frame_in_component(self, cid: int, aliased: bool = False) -> dict[str, Any] | None:
        """The operations of this block are done from the start() of a (root) component started in it: the task's
        current context is that component's own context, a wrapper that hands every call on to the block's context."""
        from asphalt.core import Component, start_component

        worker = self
        got: dict[str, Any] = {}

        class FrameComponent(Component):
            async def start(self) -> None:
                from asphalt.core import current_context

                mine = current_context()
                worker.kern.comp_ctx[id(mine)] = cid
                worker.kern.comp_keep.append(mine)      # (kept alive: the address must not be reused within the case)
                got["exit"] = await worker.frame(cid)

        if aliased:
            class Root(Component):
                def __init__(self) -> None:
                    self.add_component("frame/alt", FrameComponent)

            await start_component(Root, timeout=None)
        else:
            await start_component(FrameComponent, timeout=None)
        return got.get("exit")

    async def block(self, cmd: dict[str, Any]) -> None:
        kern = self.kern
        cid = cmd["c"]
        ctx = kern.ctxs[cid]
        entered = False
        exitcmd: dict[str, Any] | None = None
        n0 = len(kern.tdlog)
        outcome = "?"
        pre = bool(cmd.get("pre"))
        with anyio.CancelScope() as scope:
            # the way the block is left is observed here, inside the scope, before the scope absorbs
            # the cancellation it caused itself
            if pre:
                scope.cancel()      # the context is entered while a cancellation is already pending
            try:
                async with ctx:
                    entered = True
                    kern.results[cmd["i"]] = ["ok"]
                    if pre:
                        exitcmd = {"i": -2, "c": cid, "end": {"k": "cancelled"}}
                        await checkpoint()
                        kern.tdlog.append("NOT-CANCELLED")
                    if cmd.get("comp"):
                        exitcmd = await self.frame_in_component(cid, cmd["comp"] == "alias")
                    else:
                        exitcmd = await self.frame(cid)
                    n0 = len(kern.tdlog)
                    assert exitcmd is not None
                    if exitcmd.get("cancelAt") is not None and exitcmd["end"]["k"] != "cancelled":
                        kern.mid[cid] = (exitcmd["cancelAt"], scope)
                    if exitcmd["end"]["k"] == "cancelled":
                        scope.cancel()           # delivered at the block's next checkpoint
                        await checkpoint()
                        kern.tdlog.append("NOT-CANCELLED")
                    elif exitcmd["end"]["k"] != "ret":
                        raise make_exc(exitcmd["end"])
                outcome = "exitNormal"
            except BaseException as e:  # noqa: BLE001
                if not entered:
                    if isinstance(e, RuntimeError):
                        kern.results[cmd["i"]] = [kern.rt_name(e)]
                        return
                    raise
                if type(e).__name__ in ("Cancelled", "CancelledError") and exitcmd is None:
                    raise
                if type(e) is RuntimeError:
                    # a plain RuntimeError from __aexit__ itself (user code raises the harness's own classes): the
                    # context was left while a child context entered from it was still open
                    outcome = "corruption"
                else:
                    ls = leaves(e)
                    grouped = isinstance(e, BaseExceptionGroup)
                    names = [exc_name(x) for x in ls]
                    if names and all(n == "cancelled" for n in names):
                        # how many cancellation exceptions survive, and in what nesting, is the
                        # back-end's business (trio collapses them, asyncio nests the groups)
                        outcome = "raised cancelledOnly"
                    else:
                        outcome = (f"raised [{', '.join(names)}] "
                                   f"{'grouped' if grouped else 'bare'} leafgroups={leaf_groups(e)}")
        if exitcmd is not None and exitcmd["i"] >= 0:
            kern.results[exitcmd["i"]] = kern.tdlog[n0:] + (["closed"] if ctx.closed else ["NOT-CLOSED"]) + [outcome]
        elif exitcmd is not None and exitcmd["i"] == -2:
            # left already (entered under a pending cancellation): reported when the exit operation arrives
            self.left_early[cid] = kern.tdlog[n0:] + (["closed"] if ctx.closed else ["NOT-CLOSED"]) + [outcome]

    async def simple(self, cmd: dict[str, Any]) -> list[str] | None:
        from asphalt.core import Context, current_context

        import asphalt.core as ac

        kern = self.kern
        op = cmd["op"]
        shortcut = cmd.get("via") == "shortcut"
        if op == "new":
            if cmd.get("parent") is not None and cmd["parent"] not in kern.ctxs:
                return ["badOp"]
            parent = kern.ctxs[cmd["parent"]] if cmd.get("parent") is not None else None
            if cmd["c"] % 3 == 0:
                Context = _request_context_class(Context)      # a user-defined subclass (a "request context")
            ctx = Context(parent) if parent is not None else Context()
            keep = []
            while kern.freed_ids and id(ctx) not in kern.freed_ids and len(keep) < 300:
                # a context that lands where a dropped one was (what an allocator does with one short-lived context
                # after the other): look for it, keeping the misses alive meanwhile
                keep.append(ctx)
                ctx = Context(parent) if parent is not None else Context()
            kern.freed_ids.discard(id(ctx))
            del keep
            kern.ctxs[cmd["c"]] = ctx
            kern.ctx_ids[id(ctx)] = cmd["c"]
            return ["ok"]
        if op == "leak":
            # a helper task creates a child of context `parent`, enters it and ends without ever leaving it;
            # nobody keeps a reference to the child
            import gc

            parent = kern.ctxs[cmd["parent"]]
            res: list[str] = []

            async def helper(p: Any) -> None:
                child = Context(p)
                res.append("ok")
                await child.__aenter__()
                res.append("ok")

            kern.tg.start_soon(helper, parent)
            del parent
            for _ in range(5):          # the helper has no real suspension point: it is done after a step or two
                await checkpoint()
            gc.collect()
            return res
        if op == "resume":
            d = kern.deferred.pop(cmd["lid"], None)
            if d is None:
                return ["badOp"]
            coro, g = d
            return await self.simple({**g, "defer": False, "coro": coro, "i": cmd["i"], "t": cmd["t"]})
        if op == "current":
            return [kern.cur_name(current_context)]
        if op == "spawn":
            w = kern.workers[cmd["t2"]] = Worker(kern, cmd["t2"])
            kern.tg.start_soon(w.main)      # inherits this task's contextvars
            return ["ok"]
        if op == "decorate":
            return kern.do_decorate(cmd)
        if op == "inject":
            return await kern.do_inject(cmd)
        ctx = kern.ctxs.get(cmd["c"])
        if ctx is None:
            return ["badOp"]
        target: Any = ac if shortcut else ctx
        tok = ACTIVE_CTX.set(cmd["c"])
        try:
            if op == "add":
                types: Any = [TYPES[i] for i in cmd["types"]]
                if not types and isinstance(TYPES[cmd["vt"]], _types.GenericAlias) and cmd["val"] is not None:
                    # (no object's own class is a parametrized generic: for that type the types are always given)
                    types = [TYPES[cmd["vt"]]]
                if cmd["badType"] and types:
                    types = types[:-1] + [5] if cmd.get("badPos") else [5] + types[1:]
                if len(types) == 1 and cmd.get("single") and not cmd["badType"]:
                    types = types[0]
                value = None if cmd["val"] is None else TYPES[cmd["vt"]](cmd["val"])
                kw: dict[str, Any] = {}
                if cmd["desc"] is not None:
                    kw["description"] = cmd["desc"]
                if cmd["tdBad"]:
                    # something that is not callable - truthy or falsy
                    kw["teardown_callback"] = ["not callable", 0, "", (), 5][cmd["val"] % 5]
                elif cmd["td"] is not None:
                    kw["teardown_callback"] = kern.make_cb(cmd["td"], cmd["c"])
                return kern.guard(lambda: target.add_resource(value, as_given(cmd["name"]), types, **kw))
            if op == "addf":
                fn = kern.make_factory(cmd)
                ftypes: Any = [TYPES[i] for i in cmd["types"]]
                if cmd["noneIn"]:
                    ftypes = ftypes + [None]
                kw = {}
                if cmd["desc"] is not None:
                    kw["description"] = cmd["desc"]
                if not cmd.get("annot"):
                    kw["types"] = ftypes[0] if len(ftypes) == 1 and cmd.get("single") else ftypes
                return kern.guard(lambda: target.add_resource_factory(fn, as_given(cmd["name"]), **kw))
            if op == "getnw":
                return kern.guard(lambda: target.get_resource_nowait(TYPES[cmd["ty"]], as_given(cmd["name"]) if cmd["ty"] % 2 else cmd["name"], optional=cmd["opt"]), val=True,
                                  want=(TYPES[cmd["ty"]], cmd["name"]))
            if op == "get" and cmd.get("defer"):
                # only the coroutine object is made now; it is awaited when the matching `resume` arrives
                kern.deferred[cmd["lid"]] = (ctx.get_resource(TYPES[cmd["ty"]], cmd["name"], optional=cmd["opt"]), cmd)
                return ["ok"]
            if op == "get":
                coro_made = cmd.pop("coro", None)

                # run in a helper task so that a suspended lookup does not block the worker
                async def helper() -> None:
                    lid = cmd.get("lid", cmd["t"])
                    ACTIVE_CTX.set(cmd["c"])
                    ACTIVE_TASK.set(lid)
                    with anyio.CancelScope() as sc:
                        kern.get_scopes[lid] = sc
                        try:
                            v = await (coro_made if coro_made is not None else
                                       target.get_resource(TYPES[cmd["ty"]], cmd["name"], optional=cmd["opt"]))
                            r = [val_name(v)]
                        except BaseException as e:  # noqa: BLE001
                            if type(e).__name__ in ("Cancelled", "CancelledError"):
                                if not sc.cancel_called:
                                    raise
                                r = ["raisedExc cancelled"]      # the caller gave up (`cancelget`)
                            else:
                                r = kern.exc_out(e, (TYPES[cmd["ty"]], cmd["name"]))
                    kern.get_scopes.pop(lid, None)
                    if kern.opidx == cmd["i"]:
                        kern.results[cmd["i"]] = r
                    kern.helper_results.append((cmd["i"], cmd.get("lid", cmd["t"]), r))

                kern.tg.start_soon(helper)
                return None
            if op == "getall":
                d = target.get_resources(TYPES[cmd["ty"]])
                return ["all [" + ", ".join(f"{str.__str__(k)}={val_name(v)[4:]}" for k, v in d.items()) + "]"]
            if op == "addtd":
                if cmd.get("via") == "ctxtd" and cmd["callable"]:
                    # the @context_teardown route: an async generator whose second half is the callback
                    from asphalt.core import context_teardown

                    inner = kern.make_cb({**cmd["cb"], "async": False}, cmd["c"])

                    sub = kern.ctxs.get(cmd["enterSub"]) if cmd.get("enterSub") is not None else None

                    if kern.ctxtd_fn is None:
                        # ONE decorated function for the whole case, called once per registration (a method of a
                        # component class instantiated several times, say): every call has a generator of its own
                        @context_teardown
                        async def gen(cb_id: int, inner: Any, sub: Any) -> Any:
                            if sub is not None:
                                # the first half opens a sub-context of its own and keeps it open (and current)
                                await sub.__aenter__()
                            exc = yield
                            try:
                                await checkpoint()
                            except anyio.get_cancelled_exc_class():
                                kern.tdlog.append(f"td+ {cb_id} {exc_name(exc)}")
                                kern.tdlog.append(f"td- {cb_id} cancelled")
                                raise
                            inner(exc)

                        kern.ctxtd_fn = gen

                    try:
                        await kern.ctxtd_fn(cmd["cb"]["id"], inner, sub)
                    except Exception as e:  # noqa: BLE001
                        return kern.exc_out(e)
                    return ["ok", "ok"] if sub is not None else ["ok"]
                cb: Any = kern.make_cb(cmd["cb"], cmd["c"]) if cmd["callable"] else ["not callable", 0, "", ()][cmd["cb"]["id"] % 4]
                return kern.guard(lambda: target.add_teardown_callback(cb, cmd["cb"]["pass"]))
            if op == "parent":
                return [f"parent {kern.name_of(ctx.parent)}"]
            if op == "state":
                return [f"state {ctx.closed}"]
        finally:
            ACTIVE_CTX.reset(tok)
        return ["HARNESS-UNKNOWN-OP " + op]


def run_kernel_case(case: dict[str, Any]) -> list[dict[str, Any]]:
    backend = case.get("backend", "asyncio")
    from . import vclock

    kern = Kernel(case)
    return vclock.run(kern.main, backend=backend)
