"""Driver for run_application endings (C15): the real run_application() is called in-process
(main thread: signals need it) with a generated application, under a virtual clock."""

from __future__ import annotations

import signal
import warnings
from typing import Any

import anyio

from . import vclock
from .kernel import TYPES, EXN, exc_name

# run() results that are neither None nor an int (truthy and falsy ones)
NON_INTS = [lambda: "text", lambda: "", lambda: [], lambda: {}, lambda: 0.0, lambda: 2.5, lambda: b"", lambda: (0,),
            lambda: object()]

TICK = 1.0


class GuardFired(BaseException):
    """The harness ends an application that is still running after a very long virtual time."""


def run_runner_case(case: dict[str, Any]) -> dict[str, Any]:
    import logging

    from asphalt.core import (CLIApplicationComponent, Component, add_teardown_callback, run_application,
                              start_service_task)

    logging.disable(logging.CRITICAL)
    log: list[list[Any]] = []
    ending = case["ending"]
    kind = ending["k"]
    at = ending.get("comp", 0)

    def make_cb(spec: dict[str, Any]) -> Any:
        def cb(*args: Any) -> None:
            arg = "-" if not spec["pass"] else (exc_name(args[0]) if args else "missing")
            log.append(["td", spec["id"], arg])
            # clean-up that is only known at shutdown: registered while the root context is closing
            for late in spec.get("late", []):
                add_teardown_callback(make_cb(late), late["pass"])
                log.append(["lreg", late["id"], late["pass"]])

        # (signatures as users write them: exactly one required parameter with pass_exception, none without)
        if spec["pass"] and not spec["async"]:
            return lambda exc: cb(exc)
        if not spec["async"]:
            return lambda: cb()
        if spec["async"]:
            async def acb(*args: Any) -> None:
                cb(*args)

            if spec["id"] % 3 == 0:
                # a plain function returning a non-coroutine awaitable (an object with __await__)
                from .kernel import Awaitable

                return lambda *args: Awaitable(acb(*args))
            return acb
        return cb

    async def idle_service() -> None:
        try:
            await anyio.sleep_forever()
        finally:
            log.append(["svcStopped"])

    async def signal_service() -> None:
        await anyio.sleep(ending.get("d", 1) * TICK)
        signal.raise_signal(getattr(signal, ending.get("sig", "SIGTERM")))
        await anyio.sleep_forever()

    async def crash_service() -> None:
        await anyio.sleep(ending.get("d", 1) * TICK)
        raise EXN[ending["e"]]()

    async def guard_service() -> None:
        # safety net of the harness: an application that is still running after a very long (virtual) time is
        # stopped by a signal, and says so
        await anyio.sleep(10.0 ** 6)
        log.append(["stoppedByGuard"])
        # (not by a signal: the application's handlers may be gone already, and the default action kills the process)
        raise GuardFired()

    async def do_start(idx: int) -> None:
        comp = case["comps"][idx]
        if idx == 0:
            await start_service_task(guard_service, "guard")
        regs = comp["regs"]
        half = len(regs) // 2 if ending.get("mid") else len(regs)

        async def register(rs: list[dict[str, Any]]) -> None:
            for r in rs:
                if r.get("via") == "ctxtd":
                    # registered through @context_teardown from inside the component's start(): the part after the
                    # yield is the callback, and it is given the exception that ended the application (or None)
                    from asphalt.core import context_teardown

                    @context_teardown
                    async def resource_scope(_r: dict[str, Any] = r) -> Any:
                        if _r["id"] % 2:
                            # what the function sets up before it yields (and registers a teardown callback for) was
                            # registered before the part after the yield was
                            inner = {"id": _r["id"] + 500, "pass": False, "async": False}
                            add_teardown_callback(make_cb(inner))
                            log.append(["reg", inner["id"], False])
                        exc = yield
                        make_cb({**_r, "async": False})(exc)

                    await resource_scope()
                elif r.get("via") == "res":
                    # handed over with a resource of two types: still one callback
                    from asphalt.core import add_resource

                    cb = make_cb(r)
                    if r["id"] % 2 == 0:
                        # "any callable": an object with __call__ whose truth value is False (an empty hook list, say)
                        from .kernel import CallableObject

                        cb = CallableObject(cb, falsy=True)
                    add_resource(TYPES[0](r["id"]), f"res{r['id']}", types=[TYPES[0], TYPES[1]],
                                 teardown_callback=cb)
                else:
                    # ("pass_exception" given as a truthy / falsy value that is no bool; the callback may be the bound method of
                    # a helper object that nothing else refers to)
                    from .kernel import Temp

                    add_teardown_callback(Temp(make_cb(r)).call if r["id"] % 4 == 1 else make_cb(r), (1 if r["pass"] else 0) if r["id"] % 3 == 0 else r["pass"])
                log.append(["reg", r["id"], r["pass"]])

        await register(regs[:half])
        for k in range(comp.get("svc", 0)):
            if (idx + k) % 2:
                # a service that is told to stop through a flag it polls; the teardown action is the bound method of a
                # built-in object (`flags.clear`)
                flags = [1]

                async def polling_service(flags: list[int] = flags) -> None:
                    try:
                        while flags:
                            await anyio.sleep(TICK / 4)
                    finally:
                        log.append(["svcStopped"])

                await start_service_task(polling_service, "polling", teardown_action=flags.clear)
            else:
                await start_service_task(idle_service, "idle")
        if idx == at:
            if kind == "startupFail":
                raise EXN[1]()
            if kind == "startupTimeout":
                await anyio.sleep(100 * TICK)
            if kind == "signalDuringStartup":
                signal.raise_signal(getattr(signal, ending.get("sig", "SIGTERM")))
                if ending.get("shieldFail"):
                    # … while this component is in a step that must not be interrupted, after which it fails with an
                    # ordinary error (siblings may still be starting): a signal and a failure in one start-up
                    with anyio.CancelScope(shield=True):
                        await anyio.sleep(1 * TICK)
                    raise EXN[1]()
                await anyio.sleep(50 * TICK)
            if kind == "signalAfterStartup":
                await start_service_task(signal_service, "signaller")
            if kind == "crashAfterStartup":
                await start_service_task(crash_service, "crasher")
        if comp.get("tick"):
            await anyio.sleep(comp["tick"] * TICK)
        await register(regs[half:])

    classes: list[type] = []
    n = len(case["comps"])
    for i in reversed(range(1, n)):
        async def start(self: Any, _i: int = i) -> None:
            await do_start(_i)

        classes.insert(0, type(f"R{i}", (Component,), {"start": start}))

    def root_init(self: Any) -> None:
        for k, c in enumerate(classes, 1):
            self.add_component(f"c{k}", c)

    async def root_start(self: Any) -> None:
        await do_start(0)

    ns: dict[str, Any] = {"__init__": root_init, "start": root_start}
    if case["cli"]:
        async def run(self: Any) -> Any:
            await anyio.sleep(ending.get("d", 0) * TICK if kind in ("cliReturn", "cliRaise") else 50 * TICK)
            if kind == "cliRaise":
                raise EXN[ending["e"]]()
            if kind == "cliReturn":
                r = ending["r"]
                if r == "int" and ending.get("isub"):
                    # an instance of an int subclass (a named exit status, say) is an int
                    import enum

                    if ending["isub"] == "enum" and ending["n"] >= 0:
                        return enum.IntEnum("ExitStatus", {"CODE": ending["n"]}).CODE
                    return type("Code", (int,), {})(ending["n"])
                return None if r == "none" else (NON_INTS[ending.get("ov", 0)]() if r == "other" else ending["n"])
            return 0

        ns["run"] = run
        root_cls = type("Root", (CLIApplicationComponent,), ns)
    else:
        if len(case["comps"]) % 2 == 0:
            # an ordinary component that happens to have a method called run() (the body of its own worker task, say):
            # that does not make it a command line application
            async def run(self: Any) -> int:
                log.append(["NOT-A-CLI-COMPONENT run() called"])
                return 3

            ns["run"] = run
        root_cls = type("Root", (Component,), ns)

    backend = case.get("backend", "asyncio")
    outcome: dict[str, Any]
    old_int = signal.getsignal(signal.SIGINT)
    old_term = signal.getsignal(signal.SIGTERM)
    try:
        with warnings.catch_warnings():
            warnings.simplefilter("ignore")
            run_application(root_cls, {}, backend=backend, backend_options=vclock.backend_options(backend),
                            logging=None, start_timeout=0 if ending.get("t0") else 5 * TICK)
        outcome = {"k": "returned"}
    except SystemExit as e:
        outcome = {"k": "systemExit", "n": int(e.code) if isinstance(e.code, int) and not isinstance(e.code, bool) else repr(e.code)}
    except BaseException as e:  # noqa: BLE001
        idx = next((k for k, c in enumerate(EXN) if type(e) is c), None)
        outcome = {"k": "propagated", "e": idx} if idx is not None else {"k": "other", "exc": repr(e)}
    finally:
        signal.signal(signal.SIGINT, old_int)
        signal.signal(signal.SIGTERM, old_term)
    log.append(["done"])
    return {"log": log, "outcome": outcome}
