"""Virtual time for both anyio back-ends: sleeps cost nothing and time-outs are exact."""

from __future__ import annotations

import asyncio
import heapq
import math
from typing import Any


class VirtualLoop(asyncio.SelectorEventLoop):
    """An asyncio loop whose clock jumps to the next timer whenever nothing is ready."""

    def __init__(self) -> None:
        super().__init__()
        self._vtime = 0.0

    def time(self) -> float:
        return self._vtime

    def _run_once(self) -> None:  # type: ignore[override]
        if not self._ready and self._scheduled:  # type: ignore[attr-defined]
            # real I/O first (signals arrive through the self-pipe): never jump the clock over it
            events = self._selector.select(0)  # type: ignore[attr-defined]
            if events:
                self._process_events(events)  # type: ignore[attr-defined]
        if not self._ready and self._scheduled:  # type: ignore[attr-defined]
            sched = self._scheduled  # type: ignore[attr-defined]
            while sched and sched[0]._cancelled:
                h = heapq.heappop(sched)
                h._scheduled = False
                self._timer_cancelled_count -= 1  # type: ignore[attr-defined]
            if sched and sched[0]._when >= self._vtime:
                # one ulp past the timer: the base loop only runs handles with when < time() +
                # clock_resolution, and at large virtual times that sum rounds back to time()
                self._vtime = math.nextafter(sched[0]._when, math.inf)
        super()._run_once()  # type: ignore[misc]


def backend_options(backend: str) -> dict[str, Any]:
    if backend == "asyncio":
        return {"loop_factory": VirtualLoop}
    import trio.testing

    return {"clock": trio.testing.MockClock(autojump_threshold=0)}


def run(func: Any, *args: Any, backend: str = "asyncio") -> Any:
    import anyio

    return anyio.run(func, *args, backend=backend, backend_options=backend_options(backend))
