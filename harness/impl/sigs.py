"""
Director for the signal system (mode E): owner classes with Signal attributes, instances,
consumer tasks (one per stream) that pull on command, dispatch bursts from the director.
"""

from __future__ import annotations

import gc
import math
import warnings
import weakref
from time import time as stdlib_time
from typing import Any

import anyio

from . import vclock


def build_event_classes(parents: list[list[int]], n: int) -> list[type]:
    from asphalt.core import Event

    par = {c: p for c, p in parents}
    classes: dict[int, type] = {}

    def make(i: int) -> type:
        if i not in classes:
            base = make(par[i]) if i in par else Event
            classes[i] = type("Ev", (base,), {})      # (made by one factory: one qualified name for all of them)
            if i % 2:
                classes[i].__module__ = "__main__"      # … every second one defined in the application's own script
        return classes[i]

    return [make(i) for i in range(n)]


class SigDirector:
    def __init__(self, case: dict[str, Any]) -> None:
        self.case = case
        self.results: dict[int, list[str]] = {}
        self.extra: list[tuple[int, str]] = []     # (op index at which it happened, output)
        self.opidx = -1
        self.chan_ids: dict[int, int] = {}         # id(bound signal) -> channel number
        self.chans: list[Any] = []                 # channel number -> bound signal (kept alive)
        self.chan_key: list[tuple[int, str]] = []
        self.consumers: dict[int, Consumer] = {}
        self.n_ok = 0                              # successful dispatches (the next seq)
        self.dispatch_log: list[tuple[int, int, int]] = []   # (seq, chan, cls)
        self.stamp: dict[int, tuple[Any, float]] = {}        # seq -> (chan, wall-clock time just before dispatch())
        self.warn_count = 0
        self.delivered: dict[int, list[int]] = {}
        self.flags: list[str] = []
        self.inst_id: dict[int, int] = {}          # instance number -> id() of the object (recorded at every access)

    def setup(self) -> None:
        from asphalt.core import Signal

        c = self.case
        self.evcls = build_event_classes(c["evparents"], c["nevcls"])
        self.owner_classes: list[type] = []
        for spec in c["classes"]:
            base = self.owner_classes[spec["base"]] if spec["base"] is not None else object
            ns: dict[str, Any] = {name: Signal(self.evcls[k]) for name, k in spec["signals"].items()}
            if spec.get("falsy"):
                # an owner whose truth value is False (an empty container, say) is an instance like any other
                ns["__bool__"] = lambda a: False
                ns["__len__"] = lambda a: 0
            if spec.get("eq"):
                ns["__eq__"] = lambda a, b: isinstance(b, type(a)) and a.v == b.v
                ns["__hash__"] = lambda a: hash(a.v)
            # classes made by one class factory: different classes under one and the same qualified name - unless the
            # case has per-class private (name-mangled) signals, whose attribute names are built from the class names
            mangled = any(a.startswith("_") for sp in c["classes"] for a in sp["signals"])
            self.owner_classes.append(type(spec["name"] if mangled else "Owner", (base,), ns))
        self.instances = []
        for i, k in enumerate(c["instances"]):
            if str(i) in c.get("copies", {}) or str(i) in c.get("reborn", {}):
                self.instances.append(None)     # made later: a copy of another instance, or a successor of a dead one
                continue
            obj = self.owner_classes[k]()
            obj.v = c.get("values", {}).get(str(i), i)
            obj.uid = i          # which instance this is (addresses get reused, equality may be by value)
            self.instances.append(obj)

    def instance(self, i: int) -> Any:
        if self.instances[i] is None and str(i) in self.case.get("reborn", {}):
            # another instance of the class is dropped and collected first: the new object may well get its
            # address - it is a new instance all the same
            import gc

            k = self.case["reborn"][str(i)]
            cls = self.owner_classes[self.case["instances"][i]]
            old_id = self.inst_id.get(k)
            self.instances[k] = None
            gc.collect()
            # make new instances until one lands on the dead one's address (CPython's allocator hands freed
            # blocks out again quickly); if none does, any new instance will do
            spare = []
            obj = cls()
            for _ in range(300):
                if id(obj) == old_id:
                    break
                spare.append(obj)
                obj = cls()
            del spare
            obj.v = self.case.get("values", {}).get(str(i), i)
            obj.uid = i
            self.instances[i] = obj
            return obj
        if self.instances[i] is None:
            import copy

            src = self.instance(self.case["copies"][str(i)])
            obj = copy.copy(src) if i % 2 else copy.deepcopy(src)
            obj.v = self.case.get("values", {}).get(str(i), i)
            obj.uid = i
            self.instances[i] = obj
        return self.instances[i]

    def make_filter(self, spec: dict[str, Any]) -> Any:
        f = self.make_filter_fn(spec)
        if f is not None:
            # filters have a memory ("the first time this is seen", rate limits, "changed since the last one"): asked a
            # second time about an event they have already let through, they say no
            pure, asked = f, set()

            def f(e: Any) -> bool:
                if e.seq in asked:
                    return False
                asked.add(e.seq)
                return bool(pure(e))
        if f is not None and spec.get("obj"):
            from .kernel import CallableObject

            return CallableObject(f, falsy=spec["obj"] == "falsy")
        return f

    def make_filter_fn(self, spec: dict[str, Any]) -> Any:
        k = spec["k"]
        if k == "all":
            return None
        if k == "seqMod":
            return lambda e: e.seq % spec["m"] == spec["r"]
        if k == "clsIs":
            return lambda e: type(e) is self.evcls[spec["c"]]
        if k == "clsNot":
            return lambda e: type(e) is not self.evcls[spec["c"]]
        if k == "chanIs":
            inst, attr = self.chan_key[spec["c"]]
            return lambda e: getattr(e.source, 'uid', None) == inst and e.topic == attr
        return lambda e: False

    async def main(self) -> dict[str, Any]:
        from asphalt.core import UnboundSignal

        self.setup()
        out: list[list[str]] = []
        async with anyio.create_task_group() as tg:
            self.tg = tg
            for i, op in enumerate(self.case["ops"]):
                self.opidx = i
                k = op["op"]
                res: list[str]
                if k == "access":
                    owner = self.instance(op["inst"])
                    self.inst_id[op["inst"]] = id(owner)
                    sig = getattr(owner, op["attr"])
                    del owner
                    n = self.chan_ids.get(id(sig))
                    if n is None:
                        n = self.chan_ids[id(sig)] = len(self.chans)
                        self.chans.append(sig)
                        self.chan_key.append((op["inst"], op["attr"]))
                        declared = self.evcls[op["evcls"]]
                        if sig.event_class is not declared:
                            self.flags.append(f"bound signal of ({op['inst']},{op['attr']}) carries {sig.event_class.__name__}")
                    res = [f"chan {n}"]
                elif k == "accessClass":
                    sig = getattr(self.owner_classes[op["cls"]], op["attr"])
                    try:
                        sig.dispatch(self.evcls[0]())
                        res = ["NOT-UNBOUND"]
                    except UnboundSignal:
                        res = ["unbound"]
                elif k in ("subscribe", "wait"):
                    if op["s"] in self.consumers:
                        res = ["badOp"]
                    else:
                        if any(c >= len(self.chans) for c in op["chans"]):
                            out.append(["NO-SUCH-CHANNEL"])
                            continue
                        sigs = [self.chans[c] for c in op["chans"]]
                        if op.get("unbound"):
                            sigs = sigs + [getattr(self.owner_classes[op["ucls"]], op["uattr"])]
                        cons = self.consumers[op["s"]] = Consumer(self, op["s"], sigs, self.make_filter(op["filter"]),
                                                                  op.get("cap", 50), k == "wait")
                        self.delivered[op["s"]] = []
                        tg.start_soon(cons.main, i)
                        await anyio.wait_all_tasks_blocked()
                        res = self.results.get(i, [])
                        if res == ["unbound"]:
                            del self.consumers[op["s"]]
                            del self.delivered[op["s"]]
                        if cons.pulling:
                            res = res + [f"blocked {op['s']}"]
                elif k == "dispatch":
                    res = self.dispatch(op)
                    await anyio.wait_all_tasks_blocked()
                elif k == "pull":
                    cons = self.consumers.get(op["s"])
                    if cons is None or not cons.open or cons.pulling:
                        res = ["badOp"]
                    else:
                        cons.send("pull")
                        await anyio.wait_all_tasks_blocked()
                        res = [f"blocked {op['s']}"] if cons.pulling else []
                elif k == "finish":
                    # the consumer finalises its iterator (aclose()) but stays inside the stream_events() block: from
                    # now on it is a subscriber that never takes anything (nothing happens if it is waiting right now)
                    cons = self.consumers.get(op["s"])
                    if cons is None or not cons.open:
                        res = ["badOp"]
                    else:
                        if not cons.pulling:
                            cons.send("finish")
                            await anyio.wait_all_tasks_blocked()
                        res = ["ok"]
                elif k == "leave":
                    cons = self.consumers.get(op["s"])
                    if cons is None or not cons.open:
                        res = ["badOp"]
                    else:
                        cons.leave()
                        await anyio.wait_all_tasks_blocked()
                        res = ["ok"]
                else:
                    res = ["HARNESS-UNKNOWN"]
                res = res + [s for (j, s) in self.extra if j == i]
                out.append(canon(res))
            # binding never keeps the owner alive - with listeners still subscribed to its signals, too (an event that
            # was dispatched carries its source, so only owners nothing was dispatched through are looked at here)
            wrefs = {n: weakref.ref(o) for n, o in enumerate(self.instances) if o is not None}
            self.instances.clear()
            gc.collect()
            used = {self.chan_key[ch][0] for (_seq, ch, _cls) in self.dispatch_log if ch is not None}
            listened = sorted(n for n, r in wrefs.items() if r() is not None and n not in used)
            self.listen_checked = len({self.chan_key[c][0] for cons in self.consumers.values() if cons.open
                                       for c, sig in enumerate(self.chans) if any(sig is x for x in cons.sigs)} - used)
            if listened:
                self.flags.append(f"owner instances {listened} were not collected while streams were still listening to "
                                  f"their signals (nothing had been dispatched through them)")
            for cons in self.consumers.values():
                if cons.open:
                    cons.leave()
            await anyio.wait_all_tasks_blocked()
            tg.cancel_scope.cancel()
        # … and with nothing but the bound signals left
        refs = list(wrefs.values())
        self.consumers.clear()
        gc.collect()
        alive = sum(1 for r in refs if r() is not None)
        return {"out": out, "warnings": self.warn_count, "delivered": {str(k): v for k, v in self.delivered.items()},
                "dispatch_log": self.dispatch_log, "flags": self.flags, "owners_alive_after_gc": alive,
                "listen_checked": self.listen_checked}

    def dispatch(self, op: dict[str, Any]) -> list[str]:
        from asphalt.core import SignalQueueFull, UnboundSignal

        res: list[str] = []
        if op["chan"] is None:
            sig = getattr(self.owner_classes[op["ucls"]], op["uattr"])
        else:
            if op["chan"] >= len(self.chans):
                return ["NO-SUCH-CHANNEL"]      # (an earlier access did not produce the bound signal it should have)
            sig = self.chans[op["chan"]]
        with warnings.catch_warnings(record=True) as wl:
            warnings.simplefilter("always")
            for _ in range(op.get("n", 1)):
                ev = self.evcls[op["cls"]]()
                ev.seq = self.n_ok
                if self.n_ok % 3 == 1:
                    # an event object that already carries a stamp (a relay forwarding what it received elsewhere, a
                    # creator filling in the fields): dispatch() stamps it with *this* signal's instance, topic, time
                    ev.source, ev.topic, ev.time = _Elsewhere(), "stale_topic", 0.0
                self.stamp[self.n_ok] = (op["chan"], stdlib_time())
                try:
                    sig.dispatch(ev)
                except UnboundSignal:
                    return ["unbound"]
                except TypeError:
                    return ["typeError"]
                except BaseException as e:  # noqa: BLE001
                    self.flags.append(f"dispatch raised {type(e).__name__}")
                    return ["RAISED " + type(e).__name__]
                self.dispatch_log.append((self.n_ok, op["chan"], op["cls"]))
                self.n_ok += 1
        nwarn = sum(1 for w in wl if issubclass(w.category, SignalQueueFull))
        self.warn_count += nwarn
        return ["ok"] + ["warn"] * nwarn

    def note(self, s: str) -> None:
        self.extra.append((self.opidx, s))


class _Elsewhere:
    uid = -1


class Consumer:
    def __init__(self, d: SigDirector, s: int, sigs: list[Any], flt: Any, cap: int, once: bool) -> None:
        self.d = d
        self.s = s
        self.sigs = sigs
        self.flt = flt
        self.cap = cap
        self.once = once
        self.open = False
        self.pulling = False
        self.scope: Any = None
        self.tx, self.rx = anyio.create_memory_object_stream[str](math.inf)

    def send(self, cmd: str) -> None:
        self.tx.send_nowait(cmd)

    def leave(self) -> None:
        if self.pulling and self.scope is not None:
            self.scope.cancel()
        else:
            self.send("leave")

    def record(self, ev: Any) -> None:
        d = self.d
        d.delivered[self.s].append(ev.seq)
        d.note(f"got {self.s} {ev.seq}")
        ok = isinstance(ev.time, float) and any(
            getattr(ev.source, 'uid', None) == inst and ev.topic == attr
            for (inst, attr), sig in zip(d.chan_key, d.chans) if any(sig is x for x in self.sigs))
        chan, t0 = d.stamp.get(ev.seq, (None, 0.0))
        if ok and chan is not None:
            # … precisely: the instance and attribute it was dispatched through, and a time not before that call
            ok = (getattr(ev.source, 'uid', None), ev.topic) == d.chan_key[chan] and t0 <= ev.time <= stdlib_time()
        if not ok:
            d.flags.append(f"event {ev.seq} delivered to stream {self.s} with wrong source/topic/time")

    async def main(self, opidx: int) -> None:
        from asphalt.core import UnboundSignal, stream_events, wait_event

        d = self.d
        try:
            if self.once:
                self.open = True
                self.pulling = True
                with anyio.CancelScope() as self.scope:
                    try:
                        if len(self.sigs) == 1 and self.s % 2:
                            ev = await self.sigs[0].wait_event(self.flt)        # the method form of the same call
                        else:
                            ev = await wait_event(self.sigs, self.flt)
                    finally:
                        self.pulling = False
                        self.open = False
                    self.record(ev)
                    d.note(f"left {self.s}")
                return
            if len(self.sigs) == 1 and self.s % 2:
                # the method form of the same call; the default queue size is 50
                cm = self.sigs[0].stream_events(self.flt) if self.cap == 50 else \
                    self.sigs[0].stream_events(self.flt, max_queue_size=self.cap)
            elif self.cap == 50 and self.s % 3 == 0:
                cm = stream_events(self.sigs, self.flt)
            else:
                cm = stream_events(self.sigs, self.flt, max_queue_size=self.cap)
            async with cm as stream:
                self.open = True
                d.results[opidx] = ["ok"]
                while True:
                    cmd = await self.rx.receive()
                    if cmd == "leave":
                        break
                    if cmd == "finish":
                        await stream.aclose()
                        continue
                    self.pulling = True
                    with anyio.CancelScope() as self.scope:
                        ev = await stream.__anext__()
                        self.record(ev)
                    self.pulling = False
                    if self.scope.cancelled_caught:
                        break
            self.open = False
        except UnboundSignal:
            self.open = False
            d.results[opidx] = ["unbound"]
        except Exception as e:  # noqa: BLE001 - subscribing to / leaving a stream never fails for a bound signal
            self.open = False
            self.pulling = False
            d.flags.append(f"stream {self.s}: subscribing, receiving or leaving raised {type(e).__name__}: {e}")
            d.note(f"streamError {self.s}")


def canon(res: list[str]) -> list[str]:
    head = [s for s in res if s in ("ok", "unbound", "typeError", "badOp", "warn") or s.startswith("chan ")]
    rest = sorted(s for s in res if s not in head)
    return head + rest


def run_sig_case(case: dict[str, Any]) -> dict[str, Any]:
    import sys

    d = SigDirector(case)
    main_mod = sys.modules["__main__"]
    spec = getattr(main_mod, "__spec__", None)
    if len(case.get("ops", ())) % 2:
        # as in an application started as a script by path (`python app.py`), not with -m: __main__ has no spec
        main_mod.__spec__ = None
    try:
        return vclock.run(d.main, backend=case.get("backend", "asyncio"))
    finally:
        main_mod.__spec__ = spec
