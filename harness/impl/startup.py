"""
Mode T (trace acceptance) driver for component start-up: builds real asphalt Component
classes from a generated program, runs start_component() under a virtual clock and records
every user-visible event with its virtual time. Also an independent reference run of the
documented start-up discipline (used by the monitors for exact virtual-time predictions).
"""

from __future__ import annotations

from typing import Any

import sys

import anyio

from . import vclock

if sys.version_info < (3, 11):  # pragma: no cover
    from exceptiongroup import BaseExceptionGroup
from .kernel import EXN, TYPES

TICK = 1.0
FLUSH = 10.0 ** 7


class _Hang(Exception):
    pass


class FactoryObject:
    """A resource factory that is an object with __call__ (no annotations, no __name__)."""

    def __init__(self, fid: int) -> None:
        self.fid = fid

    def __call__(self) -> Any:
        return Gen(self.fid)


class Gen:
    def __init__(self, fid: int) -> None:
        self.fid = fid

    def __bool__(self) -> bool:
        return self.fid % 3 != 0


def val_str(v: Any) -> str | None:
    if v is None:
        return None
    if isinstance(v, Gen):
        return f"g{v.fid}"
    return f"s{v.v}"


def alias_of(spec: dict[str, Any]) -> str:
    return spec["path"].rsplit(".", 1)[-1] if spec["path"] else ""


class Eager:
    """An awaitable that is not a coroutine and has already run up to its first suspension point when it is handed
    over (a plain method that does its synchronous work at once and returns `gather(...)`, a future, an object with
    `__await__` for the rest). A failure of the synchronous part is reported when the object is awaited."""

    def __init__(self, coro: Any) -> None:
        self.coro = coro
        self.done = False
        self.result: Any = None
        self.exc: BaseException | None = None
        self.first: Any = None
        try:
            self.first = coro.send(None)
        except StopIteration as e:
            self.done, self.result = True, e.value
        except BaseException as e:  # noqa: BLE001
            self.done, self.exc = True, e

    def __await__(self) -> Any:
        if self.done:
            if self.exc is not None:
                raise self.exc
            return self.result
        y = self.first
        while True:
            try:
                sent = yield y
            except BaseException as exc:  # noqa: BLE001 - e.g. the cancellation of the start-up
                try:
                    y = self.coro.throw(exc)
                except StopIteration as e:
                    return e.value
            else:
                try:
                    y = self.coro.send(sent)
                except StopIteration as e:
                    return e.value


class StartupRun:
    def __init__(self, case: dict[str, Any]) -> None:
        self.case = case
        self.prog = case["prog"]
        self.trace: list[dict[str, Any]] = []
        self.raised_exc: dict[int, tuple[BaseException, int]] = {}     # component -> what its method raised
        self.expected_events: list[tuple[Any, ...]] = []
        self.fac_calls: dict[int, int] = {}
        self.classes: dict[int, type] = {}

    def log(self, *label: Any) -> None:
        self.trace.append({"l": list(label), "t": round(anyio.current_time() / TICK, 6)})

    def build(self) -> None:
        from asphalt.core import Component

        run = self
        # twins: ONE class for both components declared under two aliases by one shared configuration mapping (and one
        # for their children); which node an instance is follows from the order of construction
        self.twin_next = {m: [i for i, s in enumerate(self.prog) if s.get("twin") == m] for m in ("T", "TL")}
        for marker in ("T", "TL"):
            if not self.twin_next[marker]:
                continue

            def t_init(self: Any, _m: str = marker, **kw: Any) -> None:
                self._i = run.twin_next[_m].pop(0)
                run.trace.append({"l": ["construct", self._i], "t": 0.0})

            async def t_start(self: Any) -> None:
                await run.phase(self._i, "start", run.prog[self._i]["start"])

            cls = type("Twin" if marker == "T" else "TwinLeaf", (Component,), {"__init__": t_init, "start": t_start})
            globals()["DYN_TWIN" if marker == "T" else "DYN_TWINLEAF"] = cls
            for i in self.twin_next[marker]:
                self.classes[i] = cls
        for i in reversed(range(len(self.prog))):
            spec = self.prog[i]
            if spec.get("twin"):
                continue
            ns: dict[str, Any] = {}

            def __init__(self: Any, _i: int = i, _spec: dict[str, Any] = spec, **kw: Any) -> None:
                if _spec["ctorFails"]:
                    run.trace.append({"l": ["ctorFailed", _i], "t": 0.0})
                    raise ValueError("constructor failure requested")
                run.trace.append({"l": ["construct", _i], "t": 0.0})
                for ch in _spec["children"]:
                    if run.prog[ch].get("twin"):
                        continue        # declared in the configuration given to start_component()
                    if ch % 3 == 2:
                        # declared by reference, as configuration files do
                        globals()[f"DYN_C{ch}"] = run.classes[ch]
                        self.add_component(alias_of(run.prog[ch]), f"{__name__}:DYN_C{ch}")
                    else:
                        self.add_component(alias_of(run.prog[ch]), run.classes[ch])

            ns["__init__"] = __init__
            if i % 3 == 1 and not spec.get("twin"):
                # lifecycle methods that are plain methods: what they can do without waiting (publishing, say) is done
                # when they are *called*; what they return is an awaitable object for the rest, not a coroutine
                if spec["prepare"] is not None:
                    ns["prepare"] = lambda self, _i=i, _acts=spec["prepare"]: Eager(run.phase(_i, "prep", _acts))
                if spec["start"] is not None:
                    ns["start"] = lambda self, _i=i, _acts=spec["start"]: Eager(run.phase(_i, "start", _acts))
                self.classes[i] = type(f"C{i}", (Component,), ns)
                continue
            if spec["prepare"] is not None:
                async def prepare(self: Any, _i: int = i, _acts: list[dict[str, Any]] = spec["prepare"]) -> None:
                    await run.phase(_i, "prep", _acts)

                ns["prepare"] = prepare
            if spec["start"] is not None:
                async def start(self: Any, _i: int = i, _acts: list[dict[str, Any]] = spec["start"]) -> None:
                    await run.phase(_i, "start", _acts)

                ns["start"] = start
            if i % 2:
                # lifecycle methods inherited from an intermediate base class (a reusable base / mixin)
                base = type(f"Base{i}", (Component,), {k: v for k, v in ns.items() if k in ("prepare", "start")})
                self.classes[i] = type(f"C{i}", (base,), {"__init__": ns["__init__"]})
            else:
                self.classes[i] = type(f"C{i}", (Component,), ns)

    def polymorphic(self) -> None:
        """Every fourth declared class is a front for an implementation class chosen at construction time (`__new__`
        returns an instance of a subclass): the component that is prepared, started and named in errors is of that class."""
        self.impl_classes: dict[int, type] = {}
        for i, declared in list(self.classes.items()):
            if i == 0 or i % 4 != 2 or self.prog[i].get("twin"):
                continue
            impl = type(f"C{i}Impl", (declared,), {})
            declared.__new__ = staticmethod(lambda cls, *a, _impl=impl, **kw: object.__new__(_impl))  # type: ignore[assignment]
            self.impl_classes[i] = impl

    async def phase(self, i: int, which: str, acts: list[dict[str, Any]]) -> None:
        from asphalt.core import add_resource, add_resource_factory, add_teardown_callback, get_resource

        self.log("prepBegin" if which == "prep" else "startBegin", i)
        self.probe_context(i)
        cancelled = anyio.get_cancelled_exc_class()
        try:
            for a in acts:
                k = a["a"]
                if k == "publish":
                    desc = f"d{a['v']}" if a["v"] % 3 == 0 else None
                    obj = TYPES[a["ty"]](a["v"])
                    if a.get("td") is not None:
                        # a resource handed over together with its teardown callback
                        add_resource(obj, a["name"], types=[TYPES[a["ty"]]], description=desc,
                                     teardown_callback=lambda id_=a["td"]: self.log("tdRun", id_))
                        self.log("pub", i, a["ty"], a["name"], a["v"])
                        self.log("regTd", i, a["td"])
                    else:
                        add_resource(obj, a["name"], types=[TYPES[a["ty"]]], description=desc)
                        self.log("pub", i, a["ty"], a["name"], a["v"])
                    self.expected_events.append(((a["ty"],), self.final_name(i, which, a["name"]), desc, False))
                    self.probe_readback(i, which, a, obj)
                elif k == "publishFactory":
                    desc = f"fd{a['fid']}" if a["fid"] % 3 == 0 else None
                    tys = [a["ty"]] + ([a["ty2"]] if "ty2" in a else [])
                    if a.get("fails") is not None:
                        def failing_factory(e: int = a["fails"]) -> Gen:
                            raise EXN[e]()      # (EXN[1] is a LookupError)

                        add_resource_factory(failing_factory, a["name"], types=[TYPES[t] for t in tys], description=desc)
                    elif a.get("slow"):
                        async def slow_factory(fid: int = a["fid"], d: int = a["slow"], ff: int = a.get("failFirst", 0)) -> Gen:
                            n = self.fac_calls[fid] = self.fac_calls.get(fid, 0) + 1
                            await anyio.sleep(d * TICK)       # an asynchronous factory that takes its time
                            if n <= ff:
                                raise EXN[0]()                # … and whose first call(s) fail in the end
                            return Gen(fid)

                        add_resource_factory(slow_factory, a["name"], types=[TYPES[t] for t in tys], description=desc)
                    else:
                        # "any callable" with the types given explicitly: nothing about it needs to be introspectable
                        fid = a["fid"]
                        fac: Any = lambda fid=fid: Gen(fid)       # noqa: E731
                        if fid % 4 == 1:
                            import functools

                            fac = functools.partial(Gen, fid)
                        elif fid % 4 == 2:
                            fac = FactoryObject(fid)
                        elif fid % 4 == 3:
                            def fac(fid: int = fid) -> "OnlyKnownToTypeCheckers":  # type: ignore[name-defined]  # noqa: F821
                                return Gen(fid)
                        if a.get("annot"):
                            # the types are read off the factory's return annotation (a union for two types)
                            import typing

                            def fac(fid: int = fid) -> Any:  # noqa: F811
                                return Gen(fid)

                            fac.__annotations__["return"] = TYPES[tys[0]] if len(tys) == 1 else \
                                typing.Union[tuple(TYPES[t] for t in tys)]
                            add_resource_factory(fac, a["name"], description=desc)
                        elif len(tys) == 1 and fid % 2 == 0:
                            add_resource_factory(fac, a["name"], types=TYPES[tys[0]], description=desc)     # one type, given bare
                        else:
                            add_resource_factory(fac, a["name"], types=[TYPES[t] for t in tys], description=desc)
                    for t in tys:
                        self.log("pubFac", i, t, a["name"], a["fid"])
                    self.expected_events.append((tuple(sorted(tys)), self.final_name(i, which, a["name"]), desc, True))
                elif k == "await":
                    self.log("req", i, a["ty"], a["name"])
                    if a.get("inject"):
                        # the same request made by calling an injected coroutine function (C19: equivalent to the
                        # explicit lookup in the current context - which, for a component, waits)
                        from asphalt.core import inject, resource

                        async def needs(r: Any = resource(a["name"])) -> Any:
                            return r

                        needs.__annotations__ = {"r": TYPES[a["ty"]]}
                        v = await inject(needs)()
                    else:
                        v = await get_resource(TYPES[a["ty"]], a["name"])
                    self.log("got", i, a["ty"], a["name"], val_str(v))
                elif k == "awaitOpt":
                    v = await get_resource(TYPES[a["ty"]], a["name"], optional=True)
                    self.log("gotOpt", i, a["ty"], a["name"], val_str(v))
                elif k == "awaitFail":
                    # waits for a resource whose factory, registered meanwhile, fails: the error is this component's
                    try:
                        v = await get_resource(TYPES[a["ty"]], a["name"])
                        self.probe_failed(i, f"the failing factory behind ({a['ty']}, {a['name']!r}) produced {val_str(v)}", "C07,C04")
                    except EXN[a["e"]]:
                        self.log("tick", i)
                        self.log("failed", i, a["e"])
                        raise
                elif k == "awaitGiveUp":
                    # a lookup with a time limit of its own, which strikes while the factory is still running
                    with anyio.move_on_after(a["g"] * TICK) as scope:
                        v = await get_resource(TYPES[a["ty"]], a["name"])
                    if not scope.cancelled_caught:
                        self.probe_failed(i, f"a lookup of ({a['ty']}, {a['name']!r}) limited to {a['g']} ticks returned "
                                             f"{val_str(v)} although its factory takes longer", "C05,C04")
                    self.log("tick", i)
                elif k == "awaitCatch":
                    # a lookup whose factory fails (this first time); the component deals with the error
                    try:
                        v = await get_resource(TYPES[a["ty"]], a["name"])
                        self.probe_failed(i, f"the first call of the failing factory behind ({a['ty']}, {a['name']!r}) "
                                             f"produced {val_str(v)}", "C05,C04")
                    except EXN[0]:
                        pass
                    self.log("tick", i)
                elif k == "tick":
                    if a["d"] and a.get("giveup"):
                        with anyio.move_on_after(a["d"] * TICK) as scope:
                            v = await get_resource(TYPES[0], "never_published")
                        if not scope.cancelled_caught:
                            self.probe_failed(i, f"a lookup of a resource nobody publishes returned {val_str(v)}", "C06")
                    elif a["d"]:
                        await anyio.sleep(a["d"] * TICK)
                    else:
                        await anyio.lowlevel.checkpoint()
                    if a.get("nested"):
                        await self.nested_start(i)
                    self.log("tick", i)
                elif k == "regTd":
                    if a["id"] % 2:
                        add_teardown_callback(lambda id_=a["id"]: self.log("tdRun", id_))
                    else:
                        # pass_exception=True: the surrounding context is left normally, so it gets None
                        def cb(exc: Any, id_: int = a["id"]) -> None:
                            if exc is not None:
                                self.probe_failed(i, f"teardown callback {id_} registered with pass_exception received {exc!r} after a clean exit", "C05,C01")
                            self.log("tdRun", id_)

                        add_teardown_callback(cb, True)
                    self.log("regTd", i, a["id"])
                    await self.probe_nested(i)      # entering/leaving a context here has no checkpoint
                elif k == "startTask":
                    from asphalt.core import start_service_task

                    async def service(*, task_status: Any, id_: int = a["id"], d: int = a["d"]) -> None:
                        await anyio.sleep(d * TICK)             # coming up takes a while …
                        task_status.started()
                        try:
                            await anyio.sleep_forever()
                        finally:
                            self.log("tdRun", id_)              # … stopped by its finalizer when the context is torn down

                    await start_service_task(service, f"svc{a['id']}")
                    self.log("tick", i)
                    self.log("regTd", i, a["id"])
                elif k == "fail":
                    self.log("failed", i, a["e"])
                    exc: BaseException = EXN[a["e"]]()
                    if a.get("conflict"):
                        from asphalt.core import ResourceConflict

                        cty, cname, ctd = a["conflict"]
                        try:
                            add_resource(TYPES[cty](0), cname, types=[TYPES[cty]],
                                         teardown_callback=lambda id_=ctd: self.log("tdRun", id_))
                            self.probe_failed(i, f"a second add_resource() under ({cty}, {cname!r}) was accepted", "C03")
                        except ResourceConflict as e:
                            exc = e
                    elif (i + a["e"]) % 3 == 0:
                        # what the component fails with is itself a group of one (its own task group's, say)
                        exc = ExceptionGroup("jobs of the component failed", [exc])
                    self.raised_exc[i] = (exc, a["e"])
                    raise exc
        except cancelled:
            self.log("cancelSeen", i)
            raise
        self.log("prepEnd" if which == "prep" else "startEnd", i)

    def final_name(self, i: int, which: str, name: str) -> str:
        return self.prog[i]["dflt"] if name == "default" and which == "start" else name

    def probe_failed(self, i: int, msg: str, tags: str = "C05") -> None:
        self.trace.append({"l": ["probeFailed", i, msg, tags], "t": round(anyio.current_time() / TICK, 6)})

    def probe_readback(self, i: int, which: str, a: dict[str, Any], obj: Any) -> None:
        """What a component has just published is there, under the name it was published with (the
        component's default name for "default" in start()), through every lookup route of the
        component's own context (no checkpoint in here)."""
        from asphalt.core import current_context, get_resource_nowait

        spec = self.prog[i]
        final = spec["dflt"] if a["name"] == "default" and which == "start" else a["name"]
        t = TYPES[a["ty"]]
        cc = current_context()
        try:
            if get_resource_nowait(t, final) is not obj:
                self.probe_failed(i, f"get_resource_nowait({a['ty']}, {final!r}) does not return the object just published")
            if cc.get_resource_nowait(t, final, optional=True) is not obj:
                self.probe_failed(i, f"get_resource_nowait(optional=True) does not return the object just published as {final!r}")
            if cc.get_resources(t).get(final) is not obj:
                self.probe_failed(i, f"get_resources({a['ty']}) does not list the object just published as {final!r}")
            if cc.get_resource_nowait(t, "no_such_name_x", optional=True) is not None:
                self.probe_failed(i, "get_resource_nowait(optional=True) of a missing resource is not None")
        except Exception as e:  # noqa: BLE001
            self.probe_failed(i, f"reading back the resource just published as {final!r} raised {e!r}")

    def check_events(self) -> None:
        """Every publication made by a component through its own context was announced once on the
        context start_component() was called in, with its final name, types, description and kind."""
        got = list(self.events)
        for w in self.expected_events:
            if w not in got:
                self.probe_failed(0, f"no resource_added event (types, name, description, is_factory)={w} was dispatched "
                                     f"for a publication made by a component; events: {got[:6]}", "C05,C18")
                return
            got.remove(w)
        # what is left may only be the generation of a published factory's resource in this context
        facs = [w for w in self.expected_events if w[3]]
        got = [g for g in got if not (g[3] is False and any(set(g[0]) <= set(f[0]) and g[1:3] == f[1:3] for f in facs))]
        if got:
            self.probe_failed(0, f"resource_added events without a publication: {got[:4]}", "C05,C18")

    async def nested_start(self, i: int) -> None:
        """A component that starts a small component tree of its own from inside prepare()/start(): for the inner
        components, too, a new context takes the context the *outer* start_component() was called in as parent
        (component contexts are never parents), and what has been published so far is visible."""
        from asphalt.core import Component, start_component

        run = self

        class InnerChild(Component):
            async def start(self) -> None:
                run.probe_context(i)

        class Inner(Component):
            def __init__(self) -> None:
                self.add_component("leaf", InnerChild)

            async def prepare(self) -> None:
                run.probe_context(i)

        await start_component(Inner, timeout=None)

    def probe_context(self, i: int) -> None:
        """C12 inside a component: the current context is the component's own; a context created here
        takes the context start_component() was called in as its parent. (Checked without a checkpoint.)"""
        from asphalt.core import Context, current_context

        cc = current_context()
        inner = Context()
        ok = inner.parent is self.surrounding and cc is not self.surrounding
        for types, name, _desc, is_factory in self.expected_events:
            if is_factory:
                continue        # (what a factory generated belongs to one context and is not inherited)
            t = TYPES[types[0]]
            want = self.surrounding.get_resource_nowait(t, name, optional=True)
            if inner.get_resources(t).get(name) is not want or \
                    cc.get_resource_nowait(t, name, optional=True) is not want:
                self.probe_failed(i, f"a context created inside prepare()/start() (or the component's own context) does "
                                     f"not see resource ({types[0]}, {name!r}) which its parent context holds", "C05,C02")
                break
        if not ok:
            self.probe_failed(i, "a context created inside prepare()/start() did not take the context start_component "
                                 "was called in as its parent, or the component does not run in its own context", "C05,C12")

    async def probe_nested(self, i: int) -> None:
        from asphalt.core import Context, current_context

        cc = current_context()
        async with Context() as inner:
            ok = current_context() is inner and inner.parent is self.surrounding
        ok = ok and current_context() is cc
        if not ok:
            self.probe_failed(i, "entering/leaving a nested context inside prepare()/start() did not set/restore the "
                                 "current context, or its parent is not the context start_component was called in", "C05,C12")

    async def main(self) -> dict[str, Any]:
        import logging

        from asphalt.core import ComponentStartError, Context, start_component

        logging.disable(logging.CRITICAL)
        self.build()
        self.polymorphic()
        paths = {spec["path"]: i for i, spec in enumerate(self.prog)}
        cls_ids = {c: i for i, c in self.classes.items()}
        for i, impl in self.impl_classes.items():
            cls_ids[self.classes[i]] = -2       # (the front is not the class of the component that failed)
            cls_ids[impl] = i
        outcome: dict[str, Any]
        snapshot: list[list[Any]] | None = None
        extra: dict[str, Any] = {}
        async with anyio.create_task_group() as ltg:      # hosts the harness's event listener
            outer = None
            if self.case.get("outer"):
                # the context start_component() is called in is not the outermost one
                outer = Context()
                await outer.__aenter__()
            try:
                async with Context() as ctx:
                    self.surrounding = ctx
                    self.events: list[tuple[Any, ...]] = []
                    listening = anyio.Event()

                    async def listen() -> None:
                        async with ctx.resource_added.stream_events(max_queue_size=100000) as stream:
                            listening.set()
                            async for ev in stream:
                                if ev.source is not ctx:
                                    self.probe_failed(0, f"a resource_added event of the surrounding context is stamped with "
                                                         f"source {type(ev.source).__name__} (not that context)", "C10,C18,C05")
                                self.events.append((tuple(sorted(TYPES.index(t) if t in TYPES else -1 for t in ev.resource_types)), ev.resource_name,
                                                    ev.resource_description, ev.is_factory))

                    ltg.start_soon(listen)
                    await listening.wait()
                    try:
                        # safety net of the harness: if everything is blocked for ever the virtual clock
                        # jumps here instead of the process hanging
                        with anyio.move_on_after(10.0 ** 8) as guard:
                            config: dict[str, Any] = {}
                            if self.twin_next["T"]:
                                shared = {"type": f"{__name__}:DYN_TWIN",
                                          "components": {"": {"type": f"{__name__}:DYN_TWINLEAF"}}}
                                config = {"components": {alias_of(self.prog[i]): shared for i in list(self.twin_next["T"])}}
                            if self.case.get("no_timeout"):
                                # the documented way to switch the time limit off (a caller's own, far-away limit
                                # stands in for "never" so that a stuck tree ends the run the same way)
                                with anyio.fail_after(self.case["timeout"] * TICK):
                                    root = await start_component(self.classes[0], config, timeout=None)
                            else:
                                root = await start_component(self.classes[0], config, timeout=self.case["timeout"] * TICK)
                        if guard.cancelled_caught:
                            outcome = {"k": "hang"}
                            self.log("raised", outcome)
                            raise _Hang()
                        self.log("returned")
                        outcome = {"k": "returned", "root_ok": type(root) is self.classes[0]}
                    except _Hang:
                        pass
                    except ComponentStartError as e:
                        cause = e.__cause__
                        ci = next((n for n, c in enumerate(EXN) if type(cause) is c), 0 if isinstance(cause, ValueError) else 99)
                        mine = self.raised_exc.get(paths.get(e.path, -1))
                        if mine is not None:
                            # the cause is the very exception the component's method raised
                            if cause is mine[0]:
                                ci = mine[1]
                            else:
                                self.probe_failed(paths.get(e.path, 0), f"the cause of the ComponentStartError is {cause!r}, "
                                                  f"not the exception {mine[0]!r} that the component raised", "C07")
                        cid = cls_ids.get(e.component_type, -1)
                        if e.phase == "creating" and cid == -2:
                            # (no component came into being: the class that was to be instantiated is the declared one)
                            cid = next(i for i, c in self.classes.items() if c is e.component_type)
                        outcome = {"k": "cse", "phase": e.phase, "i": paths.get(e.path, -1), "cls": cid, "cause": ci}
                        self.log("raised", outcome)
                    except TimeoutError:
                        outcome = {"k": "timeout"}
                        self.log("raised", outcome)
                    except BaseExceptionGroup as eg:
                        # a failure and the time-out in the very same instant surface together
                        outcome = {"k": "group", "members": sorted(type(x).__name__ for x in eg.exceptions)}
                        self.log("raised", outcome)
                    from asphalt.core import current_context

                    if current_context() is not ctx:
                        # whatever start_component() did - returned, failed, ran out of time -, its caller is where it was
                        self.probe_failed(0, f"after start_component() ({outcome['k']}) its caller's current context is "
                                             f"{type(current_context()).__name__}, not the context it called it in", "C12")
                    n_before = len(self.trace)
                    await anyio.sleep(FLUSH)         # anything still running would show up now
                    extra["labels_during_flush"] = len(self.trace) - n_before
                    self.check_events()
                    snapshot = []
                    for ty, t in enumerate(TYPES):
                        for name, v in ctx.get_resources(t).items():
                            snapshot.append([ty, name, val_str(v)])
            except BaseException as e:  # noqa: BLE001 - e.g. an exception surfacing from the root context
                extra["root_exception"] = repr(e)
                outcome = locals().get("outcome") or {"k": "other", "exc": repr(e)}
            if outer is not None:
                n_left = len(self.trace)
                try:
                    await outer.__aexit__(None, None, None)
                except BaseException as e:  # noqa: BLE001
                    extra.setdefault("root_exception", repr(e))
                extra["after_left"] = [e["l"] for e in self.trace[n_left:]]
            ltg.cancel_scope.cancel()
        return {"trace": self.trace, "outcome": outcome, "snapshot": snapshot, **extra}


def run_startup_case(case: dict[str, Any]) -> dict[str, Any]:
    r = StartupRun(case)
    return vclock.run(r.main, backend=case.get("backend", "asyncio"))


# ------------------------------------------------------------------------------------ reference


def expand_prog(prog: list[dict[str, Any]], for_model: bool = False) -> list[dict[str, Any]]:
    """`publish` with a teardown callback = `publish` followed by `regTd` inside one atomic section."""
    out = []
    for spec in prog:
        spec = dict(spec)
        for ph in ("prepare", "start"):
            if spec[ph] is not None:
                acts = []
                for a in spec[ph]:
                    if a["a"] == "publish" and a.get("td") is not None:
                        acts += [{k: v for k, v in a.items() if k != "td"}, {"a": "regTd", "id": a["td"]}]
                    elif a["a"] == "publishFactory" and "ty2" in a:
                        # one call registering the factory under two types
                        base = {k: v for k, v in a.items() if k != "ty2"}
                        acts += [base, {**base, "ty": a["ty2"]}]
                    elif a["a"] == "startTask":
                        # for the start-up discipline: time passes, then a teardown callback is registered
                        acts += [{"a": "tick", "d": a["d"]}, {"a": "regTd", "id": a["id"]}]
                    elif for_model and a["a"] == "tick" and not isinstance(a["d"], int):
                        acts.append({**a, "d": int(a["d"]) + 1})      # half ticks: the model has whole ones only
                    elif for_model and a["a"] == "awaitFail":
                        acts += [{"a": "tick", "d": 1}, {"a": "fail", "e": a["e"]}]
                    elif for_model and a["a"] in ("awaitGiveUp", "awaitCatch"):
                        # a lookup that comes to nothing: for the start-up discipline, time passing in that component
                        acts.append({"a": "tick", "d": 1})
                    else:
                        acts.append(a)
                spec[ph] = acts
        out.append(spec)
    return out


class RefRun:
    """The documented discipline, independently of asphalt: prepare, then all children
    concurrently, then start; a resource request returns as soon as the resource is there;
    one failure (or the time-out) stops everything."""

    def __init__(self, case: dict[str, Any]) -> None:
        self.prog = expand_prog(case["prog"])
        self.timeout = case["timeout"]
        self.times: list[tuple[tuple[Any, ...], float]] = []
        self.table: dict[tuple[int, str], Any] = {}
        self.events: dict[tuple[int, str], anyio.Event] = {}
        self.failure: dict[str, Any] | None = None
        self.slow: dict[tuple[int, str], int] = {}          # key -> generation time of its (slow, async) factory
        self.generating: dict[tuple[int, str], anyio.Event] = {}
        self.generated: set[tuple[int, str]] = set()
        self.fail_first: dict[tuple[int, str], int] = {}
        self.calls: dict[tuple[int, str], int] = {}

    def log(self, *label: Any) -> None:
        self.times.append((tuple(label), round(anyio.current_time() / TICK, 6)))

    def publish(self, key: tuple[int, str], val: str) -> None:
        if val.startswith("g") and key in self.table:
            return      # a factory never replaces the resource already registered under the key
        self.table[key] = val
        if key in self.events:
            self.events[key].set()

    async def phase(self, i: int, which: str, acts: list[dict[str, Any]]) -> None:
        spec = self.prog[i]
        self.log("prepBegin" if which == "prep" else "startBegin", i)
        for a in acts:
            k = a["a"]
            if k in ("publish", "publishFactory"):
                name = spec["dflt"] if a["name"] == "default" and which == "start" else a["name"]
                if k == "publish":
                    self.publish((a["ty"], name), f"s{a['v']}")
                    self.log("pub", i, a["ty"], a["name"], a["v"])
                else:
                    if a.get("slow") and (a["ty"], name) not in self.table:
                        self.slow[(a["ty"], name)] = a["slow"]
                        self.fail_first[(a["ty"], name)] = a.get("failFirst", 0)
                    self.publish((a["ty"], name), f"g{a['fid']}")
                    self.log("pubFac", i, a["ty"], a["name"], a["fid"])
            elif k == "await":
                key = (a["ty"], a["name"])
                self.log("req", i, a["ty"], a["name"])
                while key not in self.table:
                    await self.events.setdefault(key, anyio.Event()).wait()
                await self.generate(key)
                self.log("got", i, a["ty"], a["name"], self.table[key])
            elif k == "awaitOpt":
                key = (a["ty"], a["name"])
                if key in self.table:
                    await self.generate(key)
                self.log("gotOpt", i, a["ty"], a["name"], self.table.get(key))
            elif k == "awaitFail":
                key = (a["ty"], a["name"])
                while key not in self.table:
                    await self.events.setdefault(key, anyio.Event()).wait()
                self.log("tick", i)
                self.log("failed", i, a["e"])
                self.failure = {"k": "cse", "phase": "preparing" if which == "prep" else "starting", "i": i,
                                "cls": i, "cause": a["e"]}
                raise RuntimeError("component failure")
            elif k == "awaitGiveUp":
                with anyio.move_on_after(a["g"] * TICK):
                    await self.generate((a["ty"], a["name"]))
                self.log("tick", i)
            elif k == "awaitCatch":
                await self.generate((a["ty"], a["name"]))
                self.log("tick", i)
            elif k == "tick":
                if a["d"]:
                    await anyio.sleep(a["d"] * TICK)
                else:
                    await anyio.lowlevel.checkpoint()
                self.log("tick", i)
            elif k == "regTd":
                self.log("regTd", i, a["id"])
            elif k == "fail":
                self.log("failed", i, a["e"])
                self.failure = {"k": "cse", "phase": "preparing" if which == "prep" else "starting", "i": i,
                                "cls": i, "cause": a["e"]}
                raise RuntimeError("component failure")
        self.log("prepEnd" if which == "prep" else "startEnd", i)

    async def generate(self, key: tuple[int, str]) -> None:
        """The first lookup of a key served by a slow asynchronous factory runs it; lookups made meanwhile
        wait for that generation."""
        while key in self.slow and key not in self.generated:
            if key in self.generating:
                await self.generating[key].wait()
                continue        # look again: that generation may have come to nothing
            ev = self.generating[key] = anyio.Event()
            n = self.calls[key] = self.calls.get(key, 0) + 1
            try:
                await anyio.sleep(self.slow[key] * TICK)
                if n > self.fail_first.get(key, 0):
                    self.generated.add(key)
            finally:
                # (also when the lookup running the factory is cancelled)
                del self.generating[key]
                ev.set()
            if key not in self.generated:
                return          # the factory failed: this lookup ends with its error

    async def comp(self, i: int) -> None:
        spec = self.prog[i]
        if spec["prepare"] is not None:
            await self.phase(i, "prep", spec["prepare"])
        if spec["children"]:
            async with anyio.create_task_group() as tg:
                for ch in spec["children"]:
                    tg.start_soon(self.comp, ch)
        if spec["start"] is not None:
            await self.phase(i, "start", spec["start"])

    async def main(self) -> dict[str, Any]:
        for i, spec in enumerate(self.prog):
            if spec["ctorFails"]:
                return {"outcome": {"k": "cse", "phase": "creating", "i": i, "cls": i, "cause": 0}, "times": self.times}
        outcome: dict[str, Any]
        try:
            with anyio.fail_after(self.timeout * TICK):
                await self.comp(0)
            outcome = {"k": "returned"}
        except TimeoutError:
            outcome = {"k": "timeout"}
        except BaseException:  # noqa: BLE001
            if self.failure is None:
                raise
            outcome = self.failure
        return {"outcome": outcome, "times": self.times, "end": round(anyio.current_time() / TICK, 6)}


def run_reference(case: dict[str, Any]) -> dict[str, Any]:
    r = RefRun(case)
    return vclock.run(r.main, backend=case.get("backend", "asyncio"))
