"""Mode T driver for service tasks at teardown (C08): runs a set-up program on the real
asphalt under a virtual clock and records what user code observes."""

from __future__ import annotations

import sys
from typing import Any

import anyio

from . import vclock
from .kernel import EXN, TYPES, leaves

if sys.version_info < (3, 11):  # pragma: no cover
    from exceptiongroup import BaseExceptionGroup

TICK = 1.0


class TasksRun:
    def __init__(self, case: dict[str, Any]) -> None:
        self.case = case
        self.trace: list[dict[str, Any]] = []
        self.start_scopes: dict[int, Any] = {}

    def log(self, *label: Any) -> None:
        self.trace.append({"l": list(label), "t": round(anyio.current_time() / TICK, 6)})

    def make_cb(self, spec: dict[str, Any], owner: Any = None) -> Any:
        if spec.get("late") is not None:
            late = spec["late"]

            async def starter() -> None:
                # a teardown callback that starts a service task on the owner, which is already being torn down
                self.log("cbRun", spec["id"])
                stop = anyio.Event()
                await owner.start_service_task(self.make_body(late, stop), f"task{late['tid']}",
                                               teardown_action=self.make_action(late, stop))
                self.log("lateStarted", late["tid"])
                if spec["raises"] is not None:
                    raise EXN[spec["raises"]]()

            return starter

        def cb() -> None:
            self.log("cbRun", spec["id"])
            if spec["raises"] is not None:
                raise EXN[spec["raises"]]()

        if spec.get("async"):
            async def acb() -> None:
                await anyio.lowlevel.checkpoint()
                cb()

            return acb
        return cb

    def make_body(self, spec: dict[str, Any], stop: anyio.Event) -> Any:
        from asphalt.core import add_teardown_callback, current_context

        run = self
        tid = spec["tid"]

        def saw() -> list[int]:
            return sorted(v.v for v in current_context().get_resources(TYPES[0]).values())

        async def closer() -> None:
            # the task's own context has (time-consuming) teardown work of its own
            with anyio.CancelScope(shield=True):
                await anyio.sleep(spec.get("close_ticks", 0) * TICK)
            run.log("taskClosed", tid)

        async def body(*, task_status: Any = None) -> None:
            cc = current_context()
            if not spec.get("from_nested") and (cc is run.owner_ctx or cc.parent is not run.owner_ctx):
                # C12: the task runs in a context of its own whose parent is the context that was current where it
                # was started (inside a component: the context start_component() was called in)
                run.log("probeFailed", tid, f"service task {tid} runs in a context whose parent is not the context that was "
                                            f"current where it was started", "C12,C08")
            add_teardown_callback(closer)
            if spec.get("pre_reg") is not None:
                # the task publishes something of its own on the owner (with a teardown callback) before it
                # reports that it has started: that callback was registered before the task's finalizer
                current_context().parent.add_teardown_callback(run.make_cb({"id": spec["pre_reg"], "raises": None}))
                await anyio.lowlevel.checkpoint()
                task_status.started(("started", tid))
                if spec.get("cancel_at_start"):
                    # the scope around the start_service_task() call is cancelled in the very moment the task reports
                    # that it has started: the call still completes (it has no checkpoint left), finalizer and all
                    run.start_scopes[tid].cancel()
            run.log("taskSaw", tid, saw())
            cancelled = anyio.get_cancelled_exc_class()
            beh = spec["beh"]
            try:
                if "until" in beh:
                    await stop.wait()
                else:
                    await anyio.sleep(beh["ends"] * TICK)
                    if beh.get("exc") is not None:
                        run.log("taskSaw", tid, saw())
                        run.log("taskEnded", tid, beh["exc"])
                        raise EXN[beh["exc"]]()
            except cancelled:
                run.log("cancelSeen", tid)
                with anyio.CancelScope(shield=True):
                    for _ in range(beh.get("until", 0)):
                        await anyio.sleep(TICK)
                        run.log("cleanupTick", tid)
                run.probe_owner_usable(tid)
                run.log("taskSaw", tid, saw())
                if beh.get("excOnCancel") is not None:
                    # the clean-up itself fails: an exception escapes the task while it is being cancelled
                    run.log("taskEnded", tid, beh["excOnCancel"])
                    raise EXN[beh["excOnCancel"]]() from None
                run.log("taskEnded", tid, None)
                raise
            run.log("taskSaw", tid, saw())
            run.log("taskEnded", tid, None)

        if spec.get("pre_reg") is None:
            if tid % 2 == 0 and not spec.get("from_nested"):
                def call_then_await() -> Any:
                    # the documented way to pass arguments - `lambda: fn(arg)` -, a partial, a callable object: a plain
                    # callable whose synchronous part, too, runs in the task's own context
                    cc = current_context()
                    if cc is run.owner_ctx or cc.parent is not run.owner_ctx:
                        run.log("probeFailed", tid, f"the task function of service task {tid} (a plain callable returning an "
                                                    f"awaitable) was called outside the task's own context", "C12,C08")
                    return body()

                return call_then_await

            async def plain_body() -> None:
                await body()

            return plain_body
        return body

    def probe_owner_usable(self, tid: int) -> None:
        """C13: a root context waits for its service tasks inside its own exit, so while a task is still
        cleaning up the context has not been closed yet - it is being torn down, and lookups are allowed."""
        if self.case.get("nested") or self.root is None:
            return
        try:
            self.root.get_resource_nowait(TYPES[0], "no_such_resource_x", optional=True)
        except RuntimeError as e:
            self.log("probeFailed", tid, f"the root context refused a lookup while its exit was still waiting for task {tid}: {e}")

    def make_action(self, spec: dict[str, Any], stop: anyio.Event) -> Any:
        a = spec["action"]
        if a == "cancel":
            return "cancel"
        if a == "none":
            return None

        def act() -> None:
            self.log("actionCalled", spec["tid"])
            if a["raises"]:
                if spec["tid"] % 2 == 0 and self.case.get("backend", "asyncio") == "asyncio":
                    # what `helper.cancel(); await helper` inside the stop callable ends with: the back-end's cancellation
                    # exception, without anybody having cancelled the teardown
                    raise anyio.get_cancelled_exc_class()()
                raise EXN[3]()
            stop.set()

        fn: Any = act
        if a.get("async"):
            async def aact() -> None:
                await anyio.lowlevel.checkpoint()
                act()

            fn = aact
        kind = a.get("kind", "fn")
        if kind == "partial":
            import functools

            return functools.partial(lambda f: f(), fn)
        if kind in ("method", "obj", "falsyobj", "partialobj"):
            class Stopper:
                """"any callable": an object with __call__ (its truth value may well be False)"""

                def __call__(self) -> Any:
                    return fn()

                def __eq__(self, other: object) -> bool:      # (a value object: equality without a hash)
                    return self is other

                __hash__ = None  # type: ignore[assignment]

                def stop(self) -> Any:
                    return fn()

                if kind == "falsyobj":
                    def __bool__(self) -> bool:
                        return False

            if kind == "partialobj":
                import functools

                # a partial around a callable *object* (operator.methodcaller, a Mock, …): neither has a __qualname__
                return functools.partial(Stopper())
            return Stopper().stop if kind == "method" else Stopper()
        return fn

    async def setup(self, owner: Any) -> None:
        if self.case.get("via_component"):
            # the same set-up done by a component's start(): every call goes through the component's own
            # context (the module-level shortcuts), which hands it on to the owner
            import asphalt.core as ac

            run = self

            class Through:
                add_resource = staticmethod(ac.add_resource)
                add_teardown_callback = staticmethod(ac.add_teardown_callback)
                start_service_task = staticmethod(ac.start_service_task)

            class Comp(ac.Component):
                async def start(self) -> None:
                    await run.program(Through(), nested_ok=False)

            await ac.start_component(Comp, timeout=None)
        else:
            await self.program(owner, nested_ok=True)
        await anyio.sleep(self.case["exit_at"] * TICK)
        self.log("exitBegin")

    async def program(self, owner: Any, nested_ok: bool) -> None:
        for step in self.case["prog"]:
            op = step["op"]
            if op == "reg":
                if step.get("via") == "resource":
                    owner.add_resource(TYPES[1](step["id"]), f"cb{step['id']}", teardown_callback=self.make_cb(step, owner))
                else:
                    owner.add_teardown_callback(self.make_cb(step, owner))
            elif op == "res":
                owner.add_resource(TYPES[0](step["v"]), f"r{step['v']}")
            elif op == "tick":
                await anyio.sleep(step["d"] * TICK)
            elif op == "start":
                stop = anyio.Event()
                if step.get("from_nested") and nested_ok:
                    # started through the owner while another (nested) context is current: the task's
                    # context must still inherit from the owner, not from the caller's current context
                    from asphalt.core import Context

                    async with Context() as inner:
                        inner.add_resource(TYPES[0](900 + step["tid"]), f"inner{step['tid']}")
                        await owner.start_service_task(self.make_body(step, stop), f"task{step['tid']}",
                                                       teardown_action=self.make_action(step, stop))
                else:
                    sv = "cancelled"
                    with anyio.CancelScope() as self.start_scopes[step["tid"]]:
                        sv = await owner.start_service_task(self.make_body(step, stop), f"task{step['tid']}",
                                                            teardown_action=self.make_action(step, stop))
                    want = ("started", step["tid"]) if step.get("pre_reg") is not None else None
                    if sv != want:
                        self.log("probeFailed", step["tid"], f"start_service_task() returned {sv!r}; the value the task "
                                                              f"passed to task_status.started() is {want!r}")

    async def main(self) -> dict[str, Any]:
        import logging

        from asphalt.core import Context

        logging.disable(logging.CRITICAL)
        out: list[int] = []
        other: str | None = None
        hang = False
        try:
            with anyio.move_on_after(10.0 ** 7) as guard:
                async with Context() as root:
                    self.root = self.owner_ctx = root
                    if self.case.get("nested"):
                        async with Context() as owner:
                            self.owner_ctx = owner
                            await self.setup(owner)
                        self.log("blockLeft")
                    else:
                        await self.setup(root)
                if not self.case.get("nested"):
                    self.log("blockLeft")
            hang = guard.cancelled_caught
        except BaseException as e:  # noqa: BLE001
            if not any(x["l"][0] == "blockLeft" for x in self.trace):
                self.log("blockLeft")
            for x in leaves(e):
                idx = next((n for n, c in enumerate(EXN) if type(x) is c), None)
                if idx is None:
                    other = repr(x)
                else:
                    out.append(idx)
        n_before = len(self.trace)
        self.log("outcome", out)
        return {"trace": self.trace, "other_exception": other, "hang": hang}


def run_tasks_case(case: dict[str, Any]) -> dict[str, Any]:
    r = TasksRun(case)
    return vclock.run(r.main, backend=case.get("backend", "asyncio"))
