"""Base of the start-up properties (C05, C06, C07): mode T (trace acceptance) + exact
virtual-time monitors against an independent reference run."""

from __future__ import annotations

import copy
import random
from collections import Counter
from typing import Any, Iterator

from .core import Prop
from .gen_startup import ProgGen, make_completable


def wire(label: list[Any]) -> list[Any]:
    return label


class StartupProp(Prop):
    backends = ("asyncio", "trio")
    gen_kwargs: dict[str, Any] = {}
    tags: tuple[str, ...] = ()

    def generate(self, rng: random.Random, tier: str, index: int) -> dict[str, Any]:
        from .impl.startup import run_reference

        kw = dict(self.gen_kwargs)
        if tier == "thorough":
            kw["max_nodes"] = int(kw.get("max_nodes", 10) * 2)
            kw["max_depth"] = kw.get("max_depth", 4) + 1
        g = ProgGen(rng, **kw)
        case = g.build()
        case["backend"] = self.backends[index % 2]
        case["outer"] = (index // 2) % 2 == 1      # start_component() called in a context that has a parent
        if rng.random() > g.p_stuck:
            case = make_completable(case, rng, run_reference)
        return case

    def run_impl(self, case):
        from .impl.startup import run_reference, run_startup_case

        obs = run_startup_case(case)
        obs["ref"] = run_reference(case)
        if case["timeout"] == 0:
            # a zero time-out ties with everything that happens in the first instant: only judged when
            # the start-up needs virtual time to pass
            obs["ref_nolimit"] = run_reference({**case, "timeout": 10.0 ** 6})
        return obs

    def model_request(self, case, impl):
        if case["timeout"] == 0:
            # a zero time-out ties with everything that happens in the first instant (and with a
            # failure there: both errors then surface together); the LTS has no notion of such
            # ties, so these runs are judged by the monitor only
            return None
        ev = [dict(e) for e in impl["trace"] if e["l"][0] != "probeFailed"]     # (the monitor's business)
        if impl["outcome"]["k"] == "timeout":
            # the watchdog firing is internal: it happened before the first component saw cancellation
            idx = next((n for n, e in enumerate(ev) if e["l"][0] in ("cancelSeen", "raised")), len(ev))
            t = ev[idx]["t"] if idx < len(ev) else (ev[-1]["t"] if ev else 0.0)
            ev = ev[:idx] + [{"l": ["timeoutFired"], "t": t}] + ev[idx:]
        # virtual time moving on after the outcome was decided is an observation the model is told about
        d = next((n for n, e in enumerate(ev) if e["l"][0] in ("failed", "timeoutFired")), None)
        if d is not None:
            later = next((n for n, e in enumerate(ev) if n > d and e["t"] > ev[d]["t"] and e["l"][0] != "tdRun"), None)
            if later is not None:
                ev = ev[:later] + [{"l": ["instantOver"], "t": ev[later]["t"]}] + ev[later:]
        from .impl.startup import expand_prog

        return {"kind": "startup", "prog": expand_prog(case["prog"], for_model=True), "timeout": True, "trace": [e["l"] for e in ev]}

    def compare(self, case, impl, model):
        if "root_exception" in impl:
            return f"an exception surfaced from the surrounding context: {impl['root_exception']}"
        if not model["accepted"]:
            trace = [e["l"] for e in impl["trace"]]
            return (f"the observed trace is not a run of the model: label #{model['at']} is not enabled; "
                    f"trace around it: {trace[max(0, model['at'] - 4): model['at'] + 2]}")
        if model["result"] != {k: v for k, v in impl["outcome"].items() if k != "root_ok"}:
            return f"outcome: model {model['result']} vs implementation {impl['outcome']}"
        if not model["reported"]:
            return "start_component neither returned nor raised according to the trace"
        if model["tds"]:
            return f"teardown callbacks {model['tds']} were registered but did not run when the context was left"
        if impl["snapshot"] is not None and sorted(map(tuple, impl["snapshot"])) != sorted(map(tuple, model["res"])):
            return f"resources in the surrounding context {sorted(map(tuple, impl['snapshot']))} vs model {sorted(map(tuple, model['res']))}"
        return None

    # ------------------------------------------------------------------ monitors
    def monitor(self, case, impl):
        fails = [f"[{t}] {m}" for t, m in monitor_startup(case, impl) if t in self.tags or t == "HARNESS"]
        out = []
        for f in fails:
            if f not in out:
                out.append(f)
        return out

    def features(self, case, impl):
        prog = case["prog"]
        depth = max(s["path"].count(".") + (1 if s["path"] else 0) for s in prog)
        f = {"backend_" + case["backend"], f"nodes_{min(len(prog), 12)}", f"depth_{depth}",
             "outcome_" + impl["outcome"]["k"] + ("_" + impl["outcome"].get("phase", "") if impl["outcome"]["k"] == "cse" else ""),
             "ref_" + impl["ref"]["outcome"]["k"]}
        if case.get("outer"):
            f.add("surrounding_context_has_parent")
        if any(a.get("conflict") for sp in prog for ph in ("prepare", "start") for a in (sp[ph] or [])):
            f.add("failure_is_a_ResourceConflict")
        if any(a.get("giveup") for sp in prog for ph in ("prepare", "start") for a in (sp[ph] or [])):
            f.add("bounded_wait_given_up")
        if case["timeout"] < 1000:
            f.add("finite_timeout")
        kinds = Counter(e["l"][0] for e in impl["trace"])
        if kinds["req"]:
            f.add("awaits")
        blocked = any(e["l"][0] == "got" and e["t"] > next(x["t"] for x in impl["trace"] if x["l"][:4] == ["req"] + e["l"][1:4])
                      for e in impl["trace"] if e["l"][0] == "got")
        if blocked:
            f.add("waiter_blocked")
        if kinds["cancelSeen"]:
            f.add("sibling_cancelled")
        return sorted(f)

    def shrink(self, case) -> Iterator[dict[str, Any]]:
        from .gen_startup import valid_prog

        for cand in self._shrink(case):
            if valid_prog(cand["prog"]):
                yield cand

    def _shrink(self, case) -> Iterator[dict[str, Any]]:
        prog = case["prog"]
        # drop leaf components
        for i in reversed(range(1, len(prog))):
            if not prog[i]["children"]:
                p2 = copy.deepcopy(prog)
                del p2[i]
                for s in p2:
                    s["children"] = [c - (c > i) for c in s["children"] if c != i]
                    if s["parent"] is not None and s["parent"] > i:
                        s["parent"] -= 1
                for n, s in enumerate(p2):
                    s["cls"] = n
                yield {**case, "prog": p2}
        # drop actions
        for i, s in enumerate(prog):
            for ph in ("prepare", "start"):
                if s[ph]:
                    for n in reversed(range(len(s[ph]))):
                        p2 = copy.deepcopy(prog)
                        del p2[i][ph][n]
                        yield {**case, "prog": p2}
                    if len(s[ph]) > 8:
                        p2 = copy.deepcopy(prog)
                        p2[i][ph] = s[ph][len(s[ph]) // 2:]
                        yield {**case, "prog": p2}
        if case.get("backend") == "trio":
            yield {**case, "backend": "asyncio"}
        if case.get("outer"):
            yield {**case, "outer": False}


def lab_key(l: list[Any]) -> tuple[Any, ...]:
    if l[0] == "gotOpt":
        # whether an optional lookup made in the very instant of the publication sees it is the scheduler's choice
        l = list(l[:4]) + ["*"]
    return tuple(tuple(x.items()) if isinstance(x, dict) else x for x in l)


def monitor_startup(case: dict[str, Any], impl: dict[str, Any]) -> list[tuple[str, str]]:
    """C05 / C06 / C07 stated on the observed trace, with exact virtual times from the reference."""
    fails: list[tuple[str, str]] = []
    for e in impl["trace"]:
        if e["l"][0] == "probeFailed":
            for tag in e["l"][3].split(","):
                fails.append((tag, f"component {e['l'][1]}: {e['l'][2]}"))
    if case["timeout"] == 0:
        nl = impl["ref_nolimit"]
        needs_time = nl["outcome"]["k"] == "timeout" or (nl["outcome"]["k"] == "returned" and nl["end"] > 0) or \
            (nl["outcome"]["k"] == "cse" and nl["outcome"]["phase"] != "creating"
             and any(t > 0 for l, t in nl["times"] if l[0] == "failed"))
        if needs_time and impl["outcome"]["k"] != "timeout":
            fails.append(("C07", f"start_component(timeout=0) on a start-up that needs virtual time ended with {impl['outcome']}, not TimeoutError"))
        if impl.get("labels_during_flush"):
            fails.append(("C07", "start-up work continued after start_component(timeout=0) had returned/raised"))
        return fails
    prog = case["prog"]
    trace = impl["trace"]
    labels = [e["l"] for e in trace]
    ref = impl["ref"]
    out, rout = impl["outcome"], ref["outcome"]
    n = len(prog)

    def pos(l: list[Any]) -> int | None:
        return next((k for k, x in enumerate(labels) if x == l), None)

    # ---- C05: construction first, in pre-order, each once
    cons = [l for l in labels if l[0] in ("construct", "ctorFailed")]
    if rout["k"] != "cse" or rout.get("phase") != "creating":
        if [l[1] for l in cons] != list(range(n)):
            fails.append(("C05", f"constructors ran as {[l[1] for l in cons]}, expected the whole tree in pre-order {list(range(n))}"))
        first_other = next((k for k, l in enumerate(labels) if l[0] not in ("construct", "ctorFailed")), len(labels))
        if any(l[0] == "construct" for l in labels[first_other:]):
            fails.append(("C05", "a component was instantiated after some prepare()/start() had begun"))
    # ---- C05: per component orderings
    def descendants(i: int) -> list[int]:
        res = []
        for c in prog[i]["children"]:
            res += [c] + descendants(c)
        return res

    for i, spec in enumerate(prog):
        for tag in ("prepBegin", "prepEnd", "startBegin", "startEnd"):
            cnt = sum(1 for l in labels if l[:2] == [tag, i])
            if cnt > 1:
                fails.append(("C05", f"{tag} of component {i} happened {cnt} times"))
            want = spec["prepare" if tag.startswith("prep") else "start"] is not None
            if out["k"] == "returned" and cnt != (1 if want else 0):
                fails.append(("C05", f"start_component returned but {tag} of component {i} happened {cnt} times"))
        mine = [k for k, l in enumerate(labels) if len(l) > 1 and l[1] == i and l[0] not in ("construct", "ctorFailed", "raised", "tdRun")]
        p = spec["parent"]
        if mine and p is not None and prog[p]["prepare"] is not None:
            pe = pos(["prepEnd", p])
            if pe is None or pe > mine[0]:
                fails.append(("C05", f"component {i} began ({labels[mine[0]]}) before prepare() of its parent {p} had returned"))
        sb = pos(["startBegin", i])
        if sb is not None:
            for d in descendants(i):
                for tag, ph in (("prepEnd", "prepare"), ("startEnd", "start")):
                    if prog[d][ph] is not None:
                        q = pos([tag, d])
                        if q is None or q > sb:
                            fails.append(("C05", f"start() of component {i} was called before {tag} of its descendant {d}"))
            if spec["prepare"] is not None and (pos(["prepEnd", i]) is None or pos(["prepEnd", i]) > sb):
                fails.append(("C05", f"start() of component {i} was called before its own prepare() returned"))
    ret = pos(["returned"])
    if ret is not None:
        later = [l for l in labels[ret + 1:] if l[0] != "tdRun"]
        if later:
            fails.append(("C05,C07".split(",")[0], f"start_component returned before start-up work had finished: {later[:3]}"))
        if out.get("root_ok") is False:
            fails.append(("C05", "start_component did not return the root component instance"))
    # ---- completion where the discipline says it must complete; exact times
    if rout["k"] == "returned":
        if out["k"] != "returned":
            # (C05: every acyclic waiting pattern completes; C06: a waiter is released by the matching publication)
            for tag in (("C05", "C06") if any(l[0] == "req" for l in labels) else ("C05",)):
                fails.append((tag, f"a start-up that completes under the documented discipline (all siblings concurrent, "
                                   f"waiters released by matching publications) ended with {out}"))
            if out["k"] == "timeout":
                fails.append(("C07", f"a start-up that finishes at t={ref['end']} (time-out {case['timeout']}) was ended by the time-out"))
        else:
            want = Counter((lab_key(l), t) for l, t in ref["times"])
            got = Counter((lab_key(e["l"]), e["t"]) for e in trace if e["l"][0] not in ("construct", "returned", "tdRun"))
            if want != got:
                diff = list((want - got).items())[:3] + list((got - want).items())[:3]
                tag = "C06" if any(k[0][0] in ("req", "got", "gotOpt") for k, _ in diff) else "C05"
                fails.append((tag, f"virtual times of start-up events differ from the documented discipline "
                                   f"(children concurrent, lookups return as soon as published), e.g. {diff}"))
    elif out["k"] == "returned":
        fails.append(("C07", f"start_component returned although the reference run ends with {rout}"))
    else:
        # failure / time-out: precise error, everything before the instant of failure as documented
        if rout["k"] == "timeout":
            if out["k"] != "timeout":
                fails.append(("C07", f"start-up does not finish within {case['timeout']} ticks but ended with {out}"))
            t_end = case["timeout"]
        else:
            if out != rout:
                fails.append(("C07", f"ComponentStartError fields {out}, expected {rout}"))
            t_end = next((t for l, t in ref["times"] if l[0] == "failed"), 0.0)
        want = Counter((lab_key(l), t) for l, t in ref["times"] if t < t_end)
        got = Counter((lab_key(e["l"]), e["t"]) for e in trace
                      if e["t"] < t_end and e["l"][0] not in ("construct", "ctorFailed", "tdRun", "raised", "cancelSeen"))
        if want != got and rout["k"] != "cse" or (rout["k"] == "cse" and rout["phase"] != "creating" and want != got):
            diff = list((want - got).items())[:3] + list((got - want).items())[:3]
            fails.append(("C07", f"before the failure/time-out at t={t_end} the start-up did not follow the documented "
                                 f"discipline, e.g. {diff}"))
        # ancestors' start() never runs; nothing after the error surfaced; siblings stopped
        if rout["k"] == "cse":
            a = prog[rout["i"]]["parent"] if rout["i"] < n else None
            while a is not None:
                if pos(["startBegin", a]) is not None:
                    fails.append(("C07", f"start() of ancestor {a} of the failing component {rout['i']} was run"))
                a = prog[a]["parent"]
        r = next((k for k, l in enumerate(labels) if l[0] == "raised"), None)
        if r is not None:
            later = [l for l in labels[r + 1:] if l[0] != "tdRun"]
            if later:
                fails.append(("C07", f"start-up work continued after start_component had raised: {later[:3]}"))
            for i, spec in enumerate(prog):
                for b, e_ in (("prepBegin", "prepEnd"), ("startBegin", "startEnd")):
                    pb = pos([b, i])
                    if pb is not None and pos([e_, i]) is None and not any(l[:2] == ["failed", i] for l in labels):
                        if not any(l[:2] == ["cancelSeen", i] for l in labels[:r]):
                            fails.append(("C07", f"component {i} was still in {b[:-5]} when start_component raised and was not stopped"))
    if impl.get("labels_during_flush"):
        fails.append(("C07,C05".split(",")[0], f"{impl['labels_during_flush']} start-up events happened after start_component had returned/raised"))
    # ---- ownership: registered callbacks run in reverse order when the surrounding context is left
    if impl.get("after_left"):
        tag = "C07" if out["k"] != "returned" else "C05"
        fails.append((tag, f"still going on after the context start_component() was called in had been left (they ended "
                           f"only with its parent): {impl['after_left'][:4]}"))
    regs = [l[2] for l in labels if l[0] == "regTd"]
    ran = [l[1] for l in labels if l[0] == "tdRun"]
    if ran != list(reversed(regs)):
        tag = "C07" if out["k"] != "returned" else "C05"
        fails.append((tag, f"teardown callbacks registered during start-up {regs} ran as {ran} when the context was left"))
    # ---- C06: optional lookups never wait
    for k, e in enumerate(trace):
        if e["l"][0] == "gotOpt":
            if isinstance(e["l"][4], str) and e["l"][4].startswith("g") and any(
                    a["a"] == "publishFactory" and a.get("slow") and f"g{a['fid']}" == e["l"][4]
                    for sp in prog for ph in ("prepare", "start") for a in (sp[ph] or [])):
                continue        # the resource exists only once its (slow, asynchronous) factory has produced it
            prev = next((x for x in reversed(trace[:k]) if len(x["l"]) > 1 and x["l"][1] == e["l"][1]), None)
            if prev is not None and prev["t"] != e["t"]:
                fails.append(("C06", f"get_resource(optional=True) of component {e['l'][1]} took time ({prev['t']} -> {e['t']})"))
    return fails
