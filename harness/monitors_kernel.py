"""
Direct property monitors for the Context kernel: an independent, deliberately simple
reference of what the property statements (C01-C04, C12, C13, C18, C19) demand, run over
the operations of a case and what the *implementation* was observed to do. Every failure is
tagged with the properties it violates. It does not use the Lean model.

Deterministic (synchronous) behaviour is predicted exactly; for lookups suspended on gated
factories the monitor checks invariants (object identity per pair, singletons per
(context, factory), ownership, locality of events) instead of exact results.
"""

from __future__ import annotations

import re
from typing import Any

BAD_NAME = re.compile(r"\w+")


class Shadow:
    def __init__(self) -> None:
        self.ctx: dict[int, dict[str, Any]] = {}
        self.cur: dict[int, int | None] = {0: None}
        self.fail: list[tuple[str, str]] = []     # (property id, message)

    def flag(self, props: str, msg: str) -> None:
        for p in props.split(","):
            self.fail.append((p, msg))


def valid_name(n: str) -> bool:
    return bool(re.fullmatch(r"[A-Za-z0-9_]+", n))


def run_order(stack: list[dict[str, Any]], cancelled: bool = False, cancel_at: int | None = None) -> list[dict[str, Any]]:
    """Expected invocation order for a registration stack (top = last). When the block was
    cancelled the teardown runs in a cancelled scope: an asynchronous callback is invoked but its
    awaitable is cancelled at its first checkpoint, i.e. before it does or registers anything."""
    stack = list(stack)
    out = []
    direct = {id(cb) for cb in stack}
    while stack:
        cb = stack.pop()
        if cancelled and cb["async"]:
            out.append({**cb, "body": [], "regs": [], "raises": {"k": "cancelled"}})
            continue
        if not cancelled and cancel_at is not None and cb["id"] == cancel_at and id(cb) in direct:
            # the cancellation arrives during this callback: it has done its work, ends cancelled (if it has a
            # checkpoint at all), and everything still to run is in a cancelled scope
            cancelled = True
            out.append({**cb, "raises": {"k": "cancelled"}} if cb["async"] else cb)
        else:
            out.append(cb)
        stack.extend(cb["regs"])
    return out


def exc_spec_name(e: dict[str, Any]) -> str:
    return "cancelled" if e["k"] == "cancelled" else f"{e['k']}{e['n']}"


def monitor_case(case: dict[str, Any], impl: list[dict[str, Any]]) -> list[tuple[str, str]]:
    from .gen_kernel import realias, resolve_reraise, undefer

    sh = Shadow()
    ops = undefer(realias(resolve_reraise(case["ops"])))
    for i, (op, r) in enumerate(zip(ops, impl)):
        try:
            step(sh, i, op, r)
        except Exception as e:  # noqa: BLE001 - a monitor crash must not look like a violation
            sh.fail.append(("HARNESS", f"monitor crashed at step {i}: {e!r}"))
            break
    return sh.fail


def visible(x: dict[str, Any], key: tuple[int, str]) -> str | None:
    return x["static"].get(key) or x["gen"].get(key)


def observe_val(sh: Shadow, i: int, c: int, key: tuple[int, str], val: str, *, how: str) -> None:
    """A lookup in context c returned `val` for `key`."""
    x = sh.ctx[c]
    prev = x["seen"].get(key)
    if prev is not None and prev != val and x["state"] != "closed":
        sh.flag("C03,C04", f"step {i}: pair {key} of context {c} resolved to {prev} before and to {val} now ({how})")
    x["seen"][key] = val
    if val.startswith("g"):
        gc, fid, n = (int(p) for p in val[1:].split("."))
        if gc != c:
            sh.flag("C04,C02", f"step {i}: context {c} returned an object generated in context {gc} for {key} ({how})")
        prevn = x["gen_n"].setdefault(fid, n)
        if prevn != n:
            sh.flag("C04", f"step {i}: factory {fid} produced two different objects in context {c} ({how})")
    else:
        if key not in x["static"] or x["static"][key] != val:
            # a static value must come from the snapshot at creation or from an own addition
            sh.flag("C02", f"step {i}: context {c} shows {val} under {key}, which is neither in its creation "
                           f"snapshot nor one of its own additions ({how})")


def canon_ev(e: str) -> str:
    """`ev <ctx> [t,…] name desc kind` with the type ids sorted (their order inside an event is nobody's promise)."""
    import re

    return re.sub(r"\[([0-9,]*)\]", lambda m: "[" + ",".join(sorted(m.group(1).split(","), key=lambda x: int(x) if x else -1)) + "]", e, count=1)


def expect_events(sh: Shadow, i: int, r: dict[str, Any], expected: list[str] | None, c: int | None) -> None:
    evs = r["ev"]
    for e in evs:
        if "BADSTAMP" in e:
            sh.flag("C18,C10", f"step {i}: event with wrong source/topic/time: {e}")
        if c is not None and not e.startswith(f"ev {c} "):
            sh.flag("C18,C02", f"step {i}: event dispatched on another context than {c}: {e}")
    if expected is not None and evs != [canon_ev(e) for e in expected]:
        sh.flag("C18", f"step {i}: resource_added events {evs}, expected {expected}")


def step(sh: Shadow, i: int, op: dict[str, Any], r: dict[str, Any]) -> None:
    k = op["op"]
    res = r["res"]
    t = op.get("t", 0)
    c = op.get("c")
    first = res[0] if res else ""
    if k == "noop":
        return
    for line in res:
        if line.startswith("task "):
            # a suspended lookup returned (or was cancelled): it is no longer outstanding anywhere
            lid = int(line.split()[1])
            for y in sh.ctx.values():
                y.get("suspended", set()).discard(lid)
    if k == "spawn":
        sh.cur[op["t2"]] = sh.cur.get(t)
        return
    if k == "new":
        if first != "ok":
            return
        p = op.get("parent")
        eff = p if p is not None else sh.cur.get(t)
        px = sh.ctx.get(eff) if eff is not None else None
        sh.ctx[c] = {
            "state": "inactive", "parent": eff,
            "static": dict(px["static"]) if px else {},
            "facs": dict(px["facs"]) if px else {},
            "gen": {}, "seen": {}, "gen_n": {}, "calls": {}, "tds": [], "token": None, "children": set(),
            "pending": set(),
        }
        expect_events(sh, i, r, [], None)
        return
    if k == "leak":
        px = sh.ctx.get(op["parent"])
        if px is None:
            return
        sh.ctx[c] = {"state": "open", "parent": op["parent"], "static": dict(px["static"]), "facs": dict(px["facs"]),
                     "gen": {}, "seen": {}, "gen_n": {}, "calls": {}, "tds": [], "token": None, "children": set(),
                     "pending": set()}
        px["children"].add(c)
        return
    if k == "current":
        exp = sh.cur.get(t)
        want = "noCurrent" if exp is None else f"cur {exp}"
        if first != want:
            sh.flag("C12", f"step {i}: current_context() of task {t} is {first!r}, expected {want!r}")
        return
    if k == "decorate":
        bad = False
        n_inj = 0
        for p in op["params"]:
            if p["dflt"] == "marker":
                if p["kind"] == "posonly" or not p.get("annot"):
                    bad = True
                n_inj += 1
            elif p["dflt"] == "uncalled":
                bad = True
        want = "argError" if bad else ("ok" if n_inj else "warnNoInject")
        # python checks parameters in order and raises at the first offender; any offender => TypeError
        if first != want:
            sh.flag("C19", f"step {i}: inject() on {op['params']} gave {first}, expected {want}")
        return
    if k == "inject":
        monitor_inject(sh, i, op, r)
        return
    if c not in sh.ctx:
        return
    if k == "addtd" and op.get("enterSub") is not None and op["enterSub"] in sh.ctx and first == "ok":
        y = sh.ctx[op["enterSub"]]      # entered by hand by the first half of the generator: current from now on
        y["state"] = "open"
        y["token"] = sh.cur.get(t)
        sh.cur[t] = op["enterSub"]
        if y["parent"] is not None and y["parent"] in sh.ctx:
            sh.ctx[y["parent"]]["children"].add(op["enterSub"])
    x = sh.ctx[c]
    usable = x["state"] in ("open", "closing")
    if k == "parent":
        want = f"parent {x['parent'] if x['parent'] is not None else 'None'}"
        if first != want:
            sh.flag("C12", f"step {i}: parent of context {c} is {first!r}, expected {want!r}")
        return
    if k == "state":
        want = f"state {x['state'] in ('closing', 'closed')}"
        if first != want:
            sh.flag("C13,C01", f"step {i}: closed flag of context {c} ({x['state']}) reported as {first!r}")
        return
    if k == "enter":
        if x["state"] != "inactive":
            if first != "runtimeError":
                sh.flag("C13", f"step {i}: entering context {c} in state {x['state']} gave {first!r}")
            return
        if first != "ok":
            sh.flag("C13", f"step {i}: entering inactive context {c} gave {first!r}")
            return
        x["state"] = "open"
        x["token"] = sh.cur.get(t)
        sh.cur[t] = c
        if x["parent"] is not None and x["parent"] in sh.ctx:
            sh.ctx[x["parent"]]["children"].add(c)
        return
    if k == "exit":
        monitor_exit(sh, i, op, r)
        return
    if k == "getall":
        if x.get("abandoned"):
            return
        want_items = [(key[1], v) for key, v in list(x["static"].items()) + list(x["gen"].items()) if key[0] == op["ty"]]
        got = first[len("all ["):-1]
        got_items = [tuple(s.split("=", 1)) for s in got.split(", ")] if got else []
        if sorted(got_items) != sorted(want_items):
            sh.flag("C02,C03", f"step {i}: get_resources(T{op['ty']}) on context {c} = {got_items}, but the context's "
                               f"snapshot plus own additions is {sorted(want_items)}")
        return
    if k == "addtd":
        if not usable:
            want = "runtimeError"
        elif not op["callable"]:
            want = "argError"
        else:
            want = "ok"
        if first != want:
            sh.flag("C13" if not usable else "C01", f"step {i}: add_teardown_callback on context {c} ({x['state']}) gave {first!r}, expected {want!r}")
        if first == "ok":
            x["tds"].append(op["cb"])
        return
    if k == "add":
        monitor_add(sh, i, op, r, x, c)
        return
    if k == "addf":
        monitor_addf(sh, i, op, r, x, c)
        return
    if k == "getnw":
        monitor_getnw(sh, i, op, r, x, c)
        return
    if k == "get":
        monitor_get(sh, i, op, r, x, c)
        return
    if k == "finish":
        monitor_finish(sh, i, op, r, x, c)
        return
    if k == "cancelget":
        monitor_cancelget(sh, i, op, r, x, c)
        return


def add_types(op: dict[str, Any]) -> list[int]:
    return op["types"] if op["types"] else [op["vt"]]


def monitor_add(sh: Shadow, i: int, op: dict[str, Any], r: dict[str, Any], x: dict[str, Any], c: int) -> None:
    first = r["res"][0]
    usable = x["state"] in ("open", "closing")
    types = add_types(op)
    if not usable:
        want = ["runtimeError"]
    elif op["types"] and op["badType"]:
        want = ["argError"]
    elif op["val"] is None:
        want = ["argError"]
    elif not valid_name(op["name"]):
        want = ["argError"]
    elif op["tdBad"]:
        want = ["argError"]
    elif any(visible(x, (ty, op["name"])) is not None for ty in types):
        want = ["conflict"]
    else:
        want = ["ok"]
    if first not in want:
        tag = "C13" if not usable else "C03"
        sh.flag(tag, f"step {i}: add_resource on context {c} ({x['state']}) gave {first!r}, expected {want[0]!r}")
    if first == "ok":
        for ty in types:
            x["static"][(ty, op["name"])] = f"s{op['val']}"
        if op.get("td") is not None:
            x["tds"].append(op["td"])
        ev = f"ev {c} [{','.join(map(str, types))}] {op['name']} {op['desc'] or '-'} r"
        expect_events(sh, i, r, [ev], c)
    else:
        # a failing call must leave no trace: no event now; tables and callbacks are checked by the
        # later get_resources / lookups / teardown traces against this unchanged shadow
        expect_events(sh, i, r, [], c)
        if r["ev"]:
            sh.flag("C03", f"step {i}: a failing add_resource dispatched an event")


def monitor_addf(sh: Shadow, i: int, op: dict[str, Any], r: dict[str, Any], x: dict[str, Any], c: int) -> None:
    first = r["res"][0]
    if x["state"] != "open":
        want = "runtimeError"
    elif not valid_name(op["name"]):
        want = "argError"
    elif not op["types"]:
        want = "argError"
    elif op["noneIn"]:
        want = "argError"
    elif any((ty, op["name"]) in x["facs"] for ty in op["types"]):
        want = "conflict"
    else:
        want = "ok"
    if first != want:
        sh.flag("C13" if x["state"] != "open" else "C03", f"step {i}: add_resource_factory on context {c} ({x['state']}) gave {first!r}, expected {want!r}")
    if first == "ok":
        for ty in op["types"]:
            x["facs"][(ty, op["name"])] = op
        ev = f"ev {c} [{','.join(map(str, op['types']))}] {op['name']} {op['desc'] or '-'} f"
        expect_events(sh, i, r, [ev], c)
    else:
        expect_events(sh, i, r, [], c)


def generation(sh: Shadow, i: int, x: dict[str, Any], c: int, fac: dict[str, Any]) -> tuple[str | None, list[str]]:
    """A factory body runs to completion in context c: returns (value or None if it raised, events)."""
    fid = fac["fid"]
    n = x["calls"].get(fid, 0)
    x["calls"][fid] = n + 1
    if n < fac["failFirst"]:
        return None, []
    val = f"g{c}.{fid}.{n}"
    free = [ty for ty in fac["types"] if visible(x, (ty, fac["name"])) is None]
    for ty in free:
        x["gen"][(ty, fac["name"])] = val
    evs = [f"ev {c} [{','.join(map(str, free))}] {fac['name']} {fac['desc'] or '-'} r"] if free else []
    return val, evs


def monitor_getnw(sh: Shadow, i: int, op: dict[str, Any], r: dict[str, Any], x: dict[str, Any], c: int,
                  prefix: str = "") -> None:
    first = r["res"][0]
    key = (op["ty"], op["name"])
    usable = x["state"] in ("open", "closing")
    evs: list[str] = []
    if not usable:
        want = "runtimeError"
    elif visible(x, key) is not None:
        want = f"val {visible(x, key)}"
    elif key in x["facs"]:
        fac = x["facs"][key]
        if fac["async"]:
            want = "asyncError"
        else:
            val, evs = generation(sh, i, x, c, fac)
            want = "raisedExc exn0" if val is None else f"val {val}"
    else:
        want = "none" if op["opt"] else "notFound"
    if first != want:
        tag = "C13" if not usable else ("C04" if key in x["facs"] else "C02,C03")
        sh.flag(tag, f"step {i}: get_resource_nowait{key} on context {c} ({x['state']}) gave {first!r}, expected {want!r}")
    if first.startswith("val "):
        observe_val(sh, i, c, key, first[4:], how="get_resource_nowait")
    expect_events(sh, i, r, evs, c)


def monitor_get(sh: Shadow, i: int, op: dict[str, Any], r: dict[str, Any], x: dict[str, Any], c: int) -> None:
    first = r["res"][0]
    key = (op["ty"], op["name"])
    usable = x["state"] in ("open", "closing")
    late = [s for s in r["res"][1:] if s.startswith("task ")]
    for s in late:
        observe_late(sh, i, c, s)
    if not usable:
        if first != "runtimeError":
            sh.flag("C13", f"step {i}: get_resource on context {c} ({x['state']}) gave {first!r}")
        return
    if visible(x, key) is not None:
        if first != f"val {visible(x, key)}":
            sh.flag("C03,C04", f"step {i}: get_resource{key} on context {c} gave {first!r}, expected val {visible(x, key)}")
        if first.startswith("val "):
            observe_val(sh, i, c, key, first[4:], how="get_resource")
        expect_events(sh, i, r, [], c)
        return
    if key in x["facs"]:
        fac = x["facs"][key]
        fid = fac["fid"]
        if fid in x["pending"]:
            if first != "blocked":
                sh.flag("C04", f"step {i}: a lookup racing with a generation in flight (factory {fid}, context {c}) "
                               f"did not wait: {first!r}")
            x.setdefault("waiters", {}).setdefault(fid, []).append(key)
            x.setdefault("wl", {}).setdefault(fid, []).append(op.get("lid"))
            if first == "blocked":
                x.setdefault("suspended", set()).add(op.get("lid"))
            return
        if fac["async"] and fac["gated"]:
            if first != "blocked":
                sh.flag("C04", f"step {i}: lookup through a suspended factory returned {first!r}")
            x["pending"].add(fid)
            x.setdefault("pending_key", {})[fid] = key
            x.setdefault("pending_lid", {})[fid] = op.get("lid")
            x["calls"][fid] = x["calls"].get(fid, 0) + 1
            if first == "blocked":
                x.setdefault("suspended", set()).add(op.get("lid"))
            return
        val, evs = generation(sh, i, x, c, fac)
        want = "raisedExc exn0" if val is None else f"val {val}"
        if first != want:
            sh.flag("C04", f"step {i}: get_resource{key} on context {c} gave {first!r}, expected {want!r}")
        if first.startswith("val "):
            observe_val(sh, i, c, key, first[4:], how="get_resource")
        expect_events(sh, i, r, evs, c)
        return
    want = "none" if op["opt"] else "notFound"
    if first != want:
        sh.flag("C02,C06", f"step {i}: get_resource{key} on context {c} gave {first!r}, expected {want!r}")


def observe_late(sh: Shadow, i: int, c: int, s: str) -> None:
    """`task t [val …]`: a suspended lookup returned. The key it asked for is not in the
    string; identity/ownership invariants are checked through the pending bookkeeping."""


def monitor_finish(sh: Shadow, i: int, op: dict[str, Any], r: dict[str, Any], x: dict[str, Any], c: int) -> None:
    fid = op["fid"]
    if fid not in x["pending"]:
        return
    x["pending"].discard(fid)
    key = x["pending_key"].pop(fid)
    fac = x["facs"][key]
    n = x["calls"][fid] - 1
    waiters = x.get("waiters", {}).pop(fid, [])
    wl = x.get("wl", {}).pop(fid, [])
    x.get("pending_lid", {}).pop(fid, None)
    results = [s for s in r["res"] if s.startswith("task ")]
    if n < fac["failFirst"]:
        # the generation failed: exactly one lookup gets the exception; one waiter (if any still
        # misses) calls the factory again
        if sum("raisedExc" in s for s in results) != 1:
            sh.flag("C04", f"step {i}: failed generation reported to {sum('raisedExc' in s for s in results)} lookups")
        missing = regenerate(x, fid, waiters, wl, r.get("next"))
        vals = [s for s in results if "val " in s]
        if len(vals) != len(waiters) - len(missing):
            sh.flag("C04", f"step {i}: {len(vals)} waiting lookups returned after a failed generation, expected {len(waiters) - len(missing)}")
        expect_events(sh, i, r, [], c)
        return
    val = f"g{c}.{fid}.{n}"
    free = [ty for ty in fac["types"] if visible(x, (ty, fac["name"])) is None]
    for ty in free:
        x["gen"][(ty, fac["name"])] = val
    evs = [f"ev {c} [{','.join(map(str, free))}] {fac['name']} {fac['desc'] or '-'} r"] if free else []
    expect_events(sh, i, r, evs, c)
    # every lookup involved returns what is registered under its own key
    want = sorted(f"val {visible(x, k)}" for k in [key] + waiters if x["state"] != "closed") if x["state"] != "closed" else None
    if want is not None:
        got = sorted(s[s.index("[") + 1:-1] for s in results)
        if got != want:
            sh.flag("C04,C03", f"step {i}: lookups resumed after the generation returned {got}, expected {want} "
                                  f"(every lookup gets what is registered under the pair it asked for)")
    prevn = x["gen_n"].setdefault(fid, n)
    if prevn != n:
        sh.flag("C04", f"step {i}: factory {fid} completed a second generation in context {c}")


def regenerate(x: dict[str, Any], fid: int, waiters: list[Any], wl: list[Any], nxt: Any) -> list[Any]:
    """After a generation that produced nothing (it failed, or the lookup running it was cancelled) the lookups that
    waited for it look again: those that still miss go on - the first to run (`nxt`, as observed) calls the factory
    itself, the others wait for that generation. Returns the keys still missing."""
    pairs = [(l, k) for l, k in zip(wl, waiters) if visible(x, k) is None]
    pairs.sort(key=lambda p: p[0] != nxt)          # stable: the observed first runner, then FIFO
    if pairs:
        x["pending"].add(fid)
        x.setdefault("pending_key", {})[fid] = pairs[0][1]
        x.setdefault("pending_lid", {})[fid] = pairs[0][0]
        x["calls"][fid] = x["calls"].get(fid, 0) + 1
        x.setdefault("waiters", {})[fid] = [k for _, k in pairs[1:]]
        x.setdefault("wl", {})[fid] = [l for l, _ in pairs[1:]]
    return [k for _, k in pairs]


def monitor_cancelget(sh: Shadow, i: int, op: dict[str, Any], r: dict[str, Any], x: dict[str, Any], c: int) -> None:
    """The caller of a suspended lookup gives up (cancels it)."""
    lid = op["lid"]
    results = [s for s in r["res"] if s.startswith("task ")]
    role = None
    for fid in sorted(x["pending"]):
        if x.get("pending_lid", {}).get(fid) == lid:
            role = ("gen", fid)
        elif lid in x.get("wl", {}).get(fid, []):
            role = ("wait", fid)
    if role is None:
        return
    mine = [s for s in results if s.startswith(f"task {lid} ")]
    if mine != [f"task {lid} [raisedExc cancelled]"]:
        sh.flag("C04", f"step {i}: the cancelled lookup {lid} reported {mine}")
    fid = role[1]
    if role[0] == "wait":
        n = x["wl"][fid].index(lid)
        del x["wl"][fid][n]
        del x["waiters"][fid][n]
        if len(results) != 1:
            sh.flag("C04", f"step {i}: cancelling a lookup that only waited for a generation affected other lookups: {results}")
        expect_events(sh, i, r, [], c)
        return
    # the lookup that was running the factory: the generation is abandoned, the waiting lookups look again
    x["pending"].discard(fid)
    x["pending_key"].pop(fid)
    x["pending_lid"].pop(fid, None)
    waiters = x.get("waiters", {}).pop(fid, [])
    wl = x.get("wl", {}).pop(fid, [])
    missing = regenerate(x, fid, waiters, wl, r.get("next"))
    vals = [s for s in results if "val " in s]
    if len(vals) != len(waiters) - len(missing):
        sh.flag("C04", f"step {i}: {len(vals)} waiting lookups returned after the generation they waited for was abandoned, "
                       f"expected {len(waiters) - len(missing)}")
    expect_events(sh, i, r, [], c)


def monitor_exit(sh: Shadow, i: int, op: dict[str, Any], r: dict[str, Any]) -> None:
    c = op["c"]
    t = op.get("t", 0)
    x = sh.ctx[c]
    res = r["res"]
    if x["state"] != "open":
        return
    be = op["end"]
    be_name = "None" if be["k"] == "ret" else exc_spec_name(be)
    order = run_order(x["tds"], cancelled=be["k"] == "cancelled", cancel_at=op.get("cancelAt"))
    if "NOT-CANCELLED" in res:
        sh.flag("HARNESS", f"step {i}: the cancellation of the block was not delivered")
    # ---- trace shape
    trace = [s for s in res if s.startswith(("td+", "td-", "body"))]
    for s in res:
        if s.startswith("CLOSED-FLAG"):
            sh.flag("C13", f"step {i}: Context.closed of context {c} read {s[12:]} (it is true from the beginning of teardown)")
    starts = [s for s in trace if s.startswith("td+")]
    ends = [s for s in trace if s.startswith("td-")]
    want_starts = [f"td+ {cb['id']} {be_name if cb['pass'] else '-'}" for cb in order]
    if [s.split()[1] for s in starts] != [str(cb["id"]) for cb in order]:
        got_ids = [s.split()[1] for s in starts]
        if sorted(got_ids) != sorted(str(cb["id"]) for cb in order):
            sh.flag("C01", f"step {i}: callbacks run {got_ids}, registered {[cb['id'] for cb in order]} (each exactly once)")
        else:
            sh.flag("C01", f"step {i}: callbacks ran in order {got_ids}, LIFO order is {[cb['id'] for cb in order]}")
    elif starts != want_starts:
        sh.flag("C01", f"step {i}: callback arguments {starts}, expected {want_starts}")
    # one at a time: every td+ i is followed by its own td- i before any other td+
    open_cb = None
    for s in trace:
        if s.startswith("td+"):
            if open_cb is not None:
                sh.flag("C01", f"step {i}: callback {s.split()[1]} started before callback {open_cb} had finished")
            open_cb = s.split()[1]
        elif s.startswith("td-"):
            if open_cb != s.split()[1]:
                sh.flag("C01", f"step {i}: callback end {s} without matching start")
            open_cb = None
    if len(ends) != len(starts):
        sh.flag("C01", f"step {i}: {len(starts)} callbacks started, {len(ends)} finished")
    # bodies run while the context is closing: replay their effect on the shadow
    x["state"] = "closing"
    body_lines = [s for s in trace if s.startswith("body")]
    want_bodies = []
    want_evs: list[str] = []
    for cb in order:
        outs = [replay_body(sh, i, x, c, b, want_evs, sh.cur.get(t)) for b in cb["body"]]
        if outs:
            want_bodies.append("body [" + ", ".join(outs) + "]")
    if body_lines != want_bodies:
        # (a lookup that must return what a factory has generated in this context before: C04, too)
        sh.flag("C13,C01,C04" if any("val g" in w for w in want_bodies) else "C13,C01",
                f"step {i}: operations performed inside teardown callbacks of context {c} answered "
                           f"{body_lines}, expected {want_bodies} (during teardown everything but "
                           f"add_resource_factory is still allowed)")
    # ---- outcome
    if "closed" not in res:
        sh.flag("C01,C13", f"step {i}: context {c} does not report itself closed after the block was left")
    raised = [exc_spec_name(cb["raises"]) for cb in order if cb["raises"] is not None]
    want_ends = [f"td- {cb['id']} {'ok' if cb['raises'] is None else exc_spec_name(cb['raises'])}" for cb in order]
    if len(ends) == len(want_ends) and ends != want_ends:
        sh.flag("C01", f"step {i}: callbacks ended {ends}, expected {want_ends}")
    outcome = res[-1] if res else ""
    open_children = {d for d in x["children"] if sh.ctx[d]["state"] in ("open", "closing")}
    if raised:
        want = f"raised [{', '.join(raised)}] grouped leafgroups=1"
        if all(n == "cancelled" for n in raised):
            want = "raised cancelledOnly"
        if outcome != want:
            sh.flag("C01", f"step {i}: teardown exceptions {raised} surfaced as {outcome!r}, expected {want!r}")
    elif open_children and (be["k"] == "ret" or x["parent"] is not None):
        if outcome != "corruption":
            sh.flag("C13", f"step {i}: context {c} left with open child contexts {sorted(open_children)}: {outcome!r}")
    elif be["k"] == "ret":
        if outcome != "exitNormal":
            sh.flag("C01", f"step {i}: clean exit of context {c} surfaced as {outcome!r}")
    elif be["k"] == "cancelled":
        if outcome != "raised cancelledOnly":
            sh.flag("C01", f"step {i}: the cancellation of the block surfaced as {outcome!r}")
    elif be["k"] == "exn":
        if outcome != f"raised [{be_name}] bare leafgroups=0":
            sh.flag("C01", f"step {i}: the block's own exception {be_name} surfaced as {outcome!r} (must be itself, not wrapped)")
    else:
        if not outcome.startswith(f"raised [{be_name}] "):
            sh.flag("C01", f"step {i}: the block's own BaseException {be_name} surfaced as {outcome!r}")
    # events of the bodies: publications made while the context is being torn down are announced
    # like any other
    expect_events(sh, i, r, want_evs if body_lines == want_bodies else None, c)
    x["state"] = "closed"
    x["tds"] = []
    # lookups still suspended on a factory when their context is closed are outside every
    # statement (the context is no longer usable): not judged further
    if x.get("suspended") and not x["pending"]:
        sh.flag("C04,C06", f"step {i}: lookups {sorted(x['suspended'])} in context {c} never returned although no generation "
                           f"was in flight any more (a lost wake-up)")
    if x["pending"]:
        x["abandoned"] = True
    x["pending"] = set()
    x.pop("waiters", None)
    x.pop("wl", None)
    x.pop("suspended", None)
    sh.cur[t] = x["token"]
    if x["parent"] is not None and x["parent"] in sh.ctx:
        sh.ctx[x["parent"]]["children"].discard(c)


def replay_body(sh: Shadow, i: int, x: dict[str, Any], c: int, b: dict[str, Any], evs: list[str] | None = None,
                cur: int | None = -1) -> str:
    """Effect and expected answer of one operation done by a teardown callback (context closing);
    the resource_added events it must cause are appended to `evs`."""
    evs = evs if evs is not None else []
    if b["op"] == "add":
        if not valid_name(b["name"]):
            return "argError"
        if any(visible(x, (ty, b["name"])) is not None for ty in b["types"]):
            return "conflict"
        for ty in b["types"]:
            x["static"][(ty, b["name"])] = f"s{b['v']}"
        evs.append(f"ev {c} [{','.join(map(str, b['types']))}] {b['name']} - r")
        return "ok"
    if b["op"] == "addf":
        return "runtimeError"
    if b["op"] in ("getnw", "get"):
        key = (b["ty"], b["name"])
        v = visible(x, key)
        if v is not None:
            return f"val {v}"
        if key in x["facs"]:
            if x["facs"][key]["async"] and b["op"] == "getnw":
                return "asyncError"
            val, e = generation(sh, i, x, c, x["facs"][key])
            evs.extend(e)
            return "raisedExc exn0" if val is None else f"val {val}"
        return "none" if b["opt"] else "notFound"
    # current_context() inside a callback: what is current for the task that is leaving the block (the
    # context itself unless a context entered by hand inside the block was never left)
    return f"cur {c if cur == -1 else cur}"


def monitor_inject(sh: Shadow, i: int, op: dict[str, Any], r: dict[str, Any]) -> None:
    t = op["t"]
    c = sh.cur.get(t)
    res = r["res"]
    first = res[0] if res else ""
    if any(s.startswith(("PASSTHROUGH-BAD", "DEFAULT-BAD")) for s in res):
        sh.flag("C19", f"step {i}: an ordinary argument did not pass through the injected call unchanged: {res}")
    if op.get("badUnion"):
        if first != "argError":
            sh.flag("C19", f"step {i}: a Union of two types was accepted for injection: {res}")
        return
    if c is None:
        if first != "noCurrent":
            sh.flag("C19,C12", f"step {i}: injected call without a current context gave {res}")
        return
    x = sh.ctx[c]
    # equivalent explicit lookups, in parameter order
    evs: list[str] = []
    args: list[str] = []
    failed: str | None = None
    for d in op["deps"]:
        key = (d["ty"], d["name"])
        if x["state"] not in ("open", "closing"):
            failed = "runtimeError"
            break
        v = visible(x, key)
        if v is None and key in x["facs"]:
            fac = x["facs"][key]
            if fac["async"] and not op["async"]:
                failed = "asyncError"
                break
            if fac["async"] and fac["gated"]:
                return   # not generated; no judgement
            v, e = generation(sh, i, x, c, fac)
            evs += e
            if v is None:
                failed = "raisedExc exn0"
                break
        if v is None:
            if d["opt"]:
                args.append(f"arg {d['param']}=none")
                continue
            failed = "notFound"
            break
        args.append(f"arg {d['param']}={v}")
        observe_val(sh, i, c, key, v if not v.startswith("val ") else v[4:], how="inject")
    want = [failed] if failed else args + ["called"]
    if res != want:
        # (a factory's product handed to the wrong caller is also C04's business: per-context singletons)
        gen = any("=g" in a for a in want + res)
        sh.flag("C19,C04" if gen else "C19", f"step {i}: injected call gave {res}, the explicit lookups give {want}")
    expect_events(sh, i, r, evs, c)
