"""C18 — resource_added announces every publication exactly once, on the right context."""
import random
from typing import Any

from ..core import Composite, Prop
from ..kernel_prop import KernelProp
from ..startup_prop import StartupProp


class C18Kernel(KernelProp):
    kinds = ("ctx",)
    id = "C18"
    tags = ("C18",)
    quick_cases = 1600
    thorough_cases = 50000
    n_ops = (12, 45)
    weights = {"new": 12, "cancelget": 2, "enter": 12, "exit": 5, "add": 22, "addf": 12, "getnw": 16, "get": 10, "finish": 4,
               "getall": 2, "addtd": 4, "current": 0, "parent": 0, "spawn": 2, "state": 0, "inject": 3}
    gen_kwargs = {"max_ctx": 8, "malformed": 0.12, "wrong_state": 0.06, "exc_end": 0.2, "p_comp": 0.25, "body_get": True}
    rule = ("a listener stream on every context from its creation (parents, children, siblings at the same time), "
            "drained after every operation; histories of successful and failing adds / factory registrations, first "
            "generations through every API, repeated lookups, publications from teardown callback bodies. Non-trivial: "
            ">=3 contexts with listeners, a successful publication, a failing call and a first generation")
    assumptions = ["that a dispatched event reaches a listener is C10's statement; listeners use a queue of 1000 and are "
                   "drained after every operation"]

    def nontrivial(self, case, impl):
        nctx = sum(1 for o in case["ops"] if o["op"] == "new")
        ok = any(o["op"] in ("add", "addf") and r["res"][:1] == ["ok"] for o, r in zip(case["ops"], impl))
        bad = any(o["op"] in ("add", "addf") and r["res"][:1] != ["ok"] for o, r in zip(case["ops"], impl))
        gen = any(" r" in e and o["op"] in ("getnw", "get", "finish", "inject") for o, r in zip(case["ops"], impl) for e in r["ev"])
        return nctx >= 3 and ok and bad and gen


class C18Startup(StartupProp):
    """Publications made by components through their own (component) context, with every kind of factory callable:
    each is announced once on the context start_component() was called in - with its final name, types, description
    and kind - and a publication that fails announces nothing."""
    id = "C18"
    kinds = ("startup",)
    tags = ("C18",)
    gen_kwargs = {"max_nodes": 8, "max_depth": 3, "p_await": 0.3, "p_stuck": 0.0, "p_fail": 0.1}

    def nontrivial(self, case, impl):
        return sum(1 for e in impl["trace"] if e["l"][0] in ("pub", "pubFac")) >= 2


class C18NoneProduct(Prop):
    """A factory whose product is `None` (a factory annotated `-> Optional[T]`, say): the generation is announced once
    like any other, and the lookups that follow - which return the existing `None` - announce nothing and call no
    factory. Decided on the implementation only (in the kernel model every product is an object with an identity)."""
    id = "C18"
    kinds = ("noneproduct",)
    APIS = ("nowait", "get", "inject", "all")

    def generate(self, rng: random.Random, tier: str, index: int) -> dict[str, Any]:
        return {"kind": "noneproduct", "backend": ("asyncio", "trio")[index % 2], "async": rng.random() < 0.5,
                "ntypes": rng.choice([1, 2, 3]), "taken": rng.random() < 0.3, "in_child": rng.random() < 0.5,
                "lookups": [rng.choice(self.APIS) for _ in range(rng.randint(2, 5))]}

    def exhaustive(self, tier: str):
        return [{"kind": "noneproduct", "backend": b, "async": a, "ntypes": n, "taken": False, "in_child": ch,
                 "lookups": [first, second, "all"], "origin": "noneproduct"}
                for b in ("asyncio", "trio") for a in (False, True) for n in (1, 2) for ch in (False, True)
                for first in ("nowait", "get", "inject") for second in ("nowait", "get", "inject")
                if not (a and "nowait" in (first,))]

    def run_impl(self, case):
        import anyio

        from asphalt.core import Context, inject, resource

        from ..impl import vclock
        from ..impl.kernel import TYPES

        async def main() -> dict[str, Any]:
            calls: list[int] = []
            events: dict[str, list[Any]] = {"root": [], "child": []}
            results: list[str] = []
            types = [TYPES[i] for i in range(case["ntypes"])]

            def sfac() -> Any:
                calls.append(1)
                return None

            async def afac() -> Any:
                calls.append(1)
                await anyio.lowlevel.checkpoint()
                return None

            @inject
            async def injected(*, r: Optional[TYPES[0]] = resource("np")) -> Any:      # noqa: F821
                return r

            async def listen(name: str, ctx: Any, started: anyio.Event) -> None:
                async with ctx.resource_added.stream_events(max_queue_size=1000) as stream:
                    started.set()
                    async for ev in stream:
                        events[name].append((sorted(TYPES.index(t) for t in ev.resource_types), ev.resource_name, ev.is_factory))

            async with anyio.create_task_group() as tg:
                async with Context() as root:
                    st = anyio.Event()
                    tg.start_soon(listen, "root", root, st)
                    await st.wait()
                    if case["taken"] and case["ntypes"] > 1:
                        root.add_resource(TYPES[1](5), "np", types=[TYPES[1]])
                    root.add_resource_factory(afac if case["async"] else sfac, "np", types=types)
                    async with Context() as child:
                        st2 = anyio.Event()
                        tg.start_soon(listen, "child", child, st2)
                        await st2.wait()
                        ctx = child if case["in_child"] else root
                        for api in case["lookups"]:
                            try:
                                if api == "nowait":
                                    results.append(repr(ctx.get_resource_nowait(TYPES[0], "np")))
                                elif api == "get":
                                    results.append(repr(await ctx.get_resource(TYPES[0], "np")))
                                elif api == "inject":
                                    if ctx is child:
                                        results.append(repr(await injected()))
                                    else:
                                        results.append(repr(await ctx.get_resource(TYPES[0], "np", optional=True)))
                                else:
                                    results.append(repr(sorted(ctx.get_resources(TYPES[0]).items())))
                            except Exception as e:  # noqa: BLE001
                                results.append("raised " + type(e).__name__)
                        await anyio.wait_all_tasks_blocked()
                tg.cancel_scope.cancel()
            return {"calls": len(calls), "events": events, "results": results}

        from typing import Optional  # noqa: F401 - used by the injected function's annotation

        main.__globals__["Optional"] = Optional
        return vclock.run(main, backend=case["backend"])

    def model_request(self, case, impl):
        return None

    def compare(self, case, impl, model):
        return None

    tags: tuple[str, ...] = ("C18",)

    def monitor(self, case, impl):
        fails: list[tuple[str, str]] = []
        where = "child" if case["in_child"] else "root"
        other = "root" if case["in_child"] else "child"
        free = [i for i in range(case["ntypes"]) if not (case["taken"] and case["ntypes"] > 1 and i == 1)]
        # the first lookup that can generate: get_resource_nowait refuses an asynchronous factory
        gen = next((n for n, api in enumerate(case["lookups"]) if api != "all" and not (case["async"] and api == "nowait")), None)
        want_ev = [] if gen is None else [(free, "np", False)]
        got = [e for e in impl["events"][where] if not e[2]]
        if case["in_child"] is False:
            got = [e for e in got if e[1] == "np" and e[0] != [1]]      # (not the resource that took a type)
        else:
            got = [e for e in got if e[1] == "np"]
        if got != want_ev:
            fails.append(("C18", f"one generation of a factory whose product is None and {len(case['lookups'])} lookups "
                                 f"{case['lookups']} announced {got} on the context, expected {want_ev}"))
        if [e for e in impl["events"][other] if e[1] == "np" and not e[2] and e[0] != [1]]:
            fails.append(("C18", f"the generation in the {where} context was announced on the {other} context too"))
        if impl["calls"] != (0 if gen is None else 1):
            fails.append(("C04", f"a factory whose product is None was called {impl['calls']} times for the lookups "
                                 f"{case['lookups']} made in one context"))
        return [f"[{t}] {m}" for t, m in fails if t in self.tags]

    def nontrivial(self, case, impl):
        return impl["calls"] >= 1 and len(case["lookups"]) >= 2

    def features(self, case, impl):
        return ["noneproduct", "backend_" + case["backend"], "async" if case["async"] else "sync"]

    def shrink(self, case):
        for i in range(len(case["lookups"])):
            if len(case["lookups"]) > 1:
                yield {**case, "lookups": case["lookups"][:i] + case["lookups"][i + 1:]}


class C18(Composite):
    id = "C18"
    quick_cases = C18Kernel.quick_cases
    thorough_cases = C18Kernel.thorough_cases
    parts = [(14, C18Kernel()), (2, C18Startup()), (1, C18NoneProduct())]
    rule = C18Kernel.rule + ("; one case in eight is a component tree start-up (as in C05) with an event listener on the "
                             "surrounding context: every publication a component makes through its own context "
                             "(resources, factories given as lambda / partial / callable object / function with "
                             "unresolvable annotations) is announced exactly once there, with its final name; one in seventeen "
                             "has a factory whose product is None: generated once, announced once, however often it is looked up")
    assumptions = C18Kernel.assumptions


PROP = C18()
