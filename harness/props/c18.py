"""C18 — resource_added announces every publication exactly once, on the right context."""
from ..core import Composite
from ..kernel_prop import KernelProp
from ..startup_prop import StartupProp


class C18Kernel(KernelProp):
    kinds = ("ctx",)
    id = "C18"
    tags = ("C18",)
    quick_cases = 1600
    thorough_cases = 50000
    n_ops = (12, 45)
    weights = {"new": 12, "cancelget": 2, "enter": 12, "exit": 5, "add": 22, "addf": 12, "getnw": 16, "get": 10, "finish": 4,
               "getall": 2, "addtd": 4, "current": 0, "parent": 0, "spawn": 2, "state": 0, "inject": 3}
    gen_kwargs = {"max_ctx": 8, "malformed": 0.12, "wrong_state": 0.06, "exc_end": 0.2, "p_comp": 0.25, "body_get": True}
    rule = ("a listener stream on every context from its creation (parents, children, siblings at the same time), "
            "drained after every operation; histories of successful and failing adds / factory registrations, first "
            "generations through every API, repeated lookups, publications from teardown callback bodies. Non-trivial: "
            ">=3 contexts with listeners, a successful publication, a failing call and a first generation")
    assumptions = ["that a dispatched event reaches a listener is C10's statement; listeners use a queue of 1000 and are "
                   "drained after every operation"]

    def nontrivial(self, case, impl):
        nctx = sum(1 for o in case["ops"] if o["op"] == "new")
        ok = any(o["op"] in ("add", "addf") and r["res"][:1] == ["ok"] for o, r in zip(case["ops"], impl))
        bad = any(o["op"] in ("add", "addf") and r["res"][:1] != ["ok"] for o, r in zip(case["ops"], impl))
        gen = any(" r" in e and o["op"] in ("getnw", "get", "finish", "inject") for o, r in zip(case["ops"], impl) for e in r["ev"])
        return nctx >= 3 and ok and bad and gen


class C18Startup(StartupProp):
    """Publications made by components through their own (component) context, with every kind of factory callable:
    each is announced once on the context start_component() was called in - with its final name, types, description
    and kind - and a publication that fails announces nothing."""
    id = "C18"
    kinds = ("startup",)
    tags = ("C18",)
    gen_kwargs = {"max_nodes": 8, "max_depth": 3, "p_await": 0.3, "p_stuck": 0.0, "p_fail": 0.1}

    def nontrivial(self, case, impl):
        return sum(1 for e in impl["trace"] if e["l"][0] in ("pub", "pubFac")) >= 2


class C18(Composite):
    id = "C18"
    quick_cases = C18Kernel.quick_cases
    thorough_cases = C18Kernel.thorough_cases
    parts = [(7, C18Kernel()), (1, C18Startup())]
    rule = C18Kernel.rule + ("; one case in eight is a component tree start-up (as in C05) with an event listener on the "
                             "surrounding context: every publication a component makes through its own context "
                             "(resources, factories given as lambda / partial / callable object / function with "
                             "unresolvable annotations) is announced exactly once there, with its final name")
    assumptions = C18Kernel.assumptions


PROP = C18()
