"""C03 — one resource per (type, name) per context; failed adds change nothing."""
from ..kernel_prop import KernelProp


class C03(KernelProp):
    id = "C03"
    tags = ("C03",)
    quick_cases = 900
    thorough_cases = 50000
    n_ops = (10, 40)
    weights = {"new": 6, "cancelget": 1, "enter": 8, "exit": 4, "add": 26, "addf": 12, "getnw": 14, "get": 8, "finish": 3,
               "getall": 14, "addtd": 2, "current": 0, "parent": 0, "spawn": 1, "state": 1}
    gen_kwargs = {"max_ctx": 5, "malformed": 0.2, "wrong_state": 0.1, "exc_end": 0.2, "p_comp": 0.25}
    rule = ("adds, factory registrations and lookups in few contexts over 4 types x 3 names so that pairs collide: single "
            "and multi-type adds conflicting on the 1st/2nd/3rd type, the malformed stream (invalid names, None value, "
            "non-type in types, non-callable teardown callback, wrong lifecycle state), static/factory/generated "
            "resources meeting on one pair, each followed by get_resources and lookups. Non-trivial: a failing add / "
            "factory registration followed by an observation, or a pair looked up twice")
    assumptions = []

    def nontrivial(self, case, impl):
        seen = set()
        failing = False
        for op, r in zip(case["ops"], impl):
            if op["op"] in ("add", "addf") and r["res"][:1] not in (["ok"],):
                failing = True
            elif op["op"] in ("getall", "getnw", "get"):
                if failing:
                    return True
                key = (op.get("c"), op.get("ty"), op.get("name"))
                if op["op"] != "getall" and key in seen:
                    return True
                seen.add(key)
        return False


PROP = C03()
