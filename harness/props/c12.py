"""C12 — current_context() follows strict per-task stack discipline."""
from ..core import Composite
from ..kernel_prop import KernelProp
from ..startup_prop import StartupProp
from .c08 import C08


class C12Kernel(KernelProp):
    kinds = ("ctx",)
    id = "C12"
    tags = ("C12",)
    quick_cases = 700
    thorough_cases = 30000
    n_ops = (10, 40)
    weights = {"new": 14, "enter": 16, "exit": 12, "add": 3, "addf": 6, "getnw": 9, "get": 3, "finish": 1,
               "getall": 0, "addtd": 5, "current": 22, "parent": 8, "spawn": 6, "state": 1, "inject": 2}
    gen_kwargs = {"max_ctx": 8, "max_tasks": 4, "malformed": 0.0, "wrong_state": 0.03, "exc_end": 0.5, "p_cancel": 0.15, "p_manual": 0.06, "p_mid": 0.15, "p_cur_after": 0.5, "p_comp": 0.2}
    rule = ("nesting depth <=6, up to 4 tasks spawned from inside and outside blocks, each entering/leaving its own "
            "contexts; exits by return / Exception / BaseException / cancellation / failing teardown; current_context() and "
            "Context.parent sampled throughout. Non-trivial: >=2 tasks each with an open block at the same time, or a "
            "block left by an exception or with a raising teardown callback followed by a current_context() sample")
    assumptions = ["task-locality is contextvars' semantics (in the model it holds by construction: the weight is on the "
                   "correspondence)", "cancellation is generated as the way a block ends or as arriving during a directly registered asynchronous teardown callback"]

    def nontrivial(self, case, impl):
        open_by: dict[int, int] = {}
        abnormal = False
        for op, r in zip(case["ops"], impl):
            if op["op"] == "enter" and r["res"][:1] == ["ok"]:
                open_by[op["t"]] = open_by.get(op["t"], 0) + 1
                if sum(1 for v in open_by.values() if v > 0) >= 2:
                    return True
            elif op["op"] == "exit":
                open_by[op["t"]] = open_by.get(op["t"], 0) - 1
                if r["res"] and r["res"][-1].startswith("raised"):
                    abnormal = True
            elif op["op"] == "current" and abnormal:
                return True
        return False


class C12Startup(StartupProp):
    """Inside components: prepare()/start() run in the component's own context; a context created there
    takes the context start_component() was called in as parent, and leaving it restores the current one."""
    id = "C12"
    kinds = ("startup",)
    tags = ("C12",)
    gen_kwargs = {"max_nodes": 8, "max_depth": 3, "p_await": 0.3, "p_stuck": 0.0, "p_fail": 0.2}

    def nontrivial(self, case, impl):
        return len(case["prog"]) >= 2 and any(e["l"][0] == "regTd" for e in impl["trace"])


class C12Tasks(C08):
    """Service tasks started in root and nested contexts and by components: the task's own context has the context
    that was current where it was started as its parent. (Observed directly; the service-task model is C08's.)"""
    id = "C12"
    tags = ("C12",)

    def model_request(self, case, impl):
        return None

    def compare(self, case, impl, model):
        return None

    def nontrivial(self, case, impl):
        return any(e["l"][0] == "taskSaw" for e in impl["trace"])


class C12(Composite):
    id = "C12"
    quick_cases = C12Kernel.quick_cases
    thorough_cases = C12Kernel.thorough_cases
    parts = [(12, C12Kernel()), (2, C12Startup()), (1, C12Tasks())]
    rule = C12Kernel.rule + ("; one case in seven is a component tree start-up (as in C05) where every prepare()/start() "
                             "samples current_context() and creates/enters/leaves a nested context; one in fifteen is a C08 program "
                             "whose service tasks check the parent of the context they run in")
    assumptions = C12Kernel.assumptions


PROP = C12()
