"""C12 — current_context() follows strict per-task stack discipline."""
from ..kernel_prop import KernelProp


class C12(KernelProp):
    id = "C12"
    tags = ("C12",)
    quick_cases = 700
    thorough_cases = 30000
    n_ops = (10, 40)
    weights = {"new": 14, "enter": 16, "exit": 12, "add": 3, "addf": 1, "getnw": 2, "get": 1, "finish": 0,
               "getall": 0, "addtd": 5, "current": 22, "parent": 8, "spawn": 6, "state": 1, "inject": 2}
    gen_kwargs = {"max_ctx": 8, "max_tasks": 4, "malformed": 0.0, "wrong_state": 0.03, "exc_end": 0.5}
    rule = ("nesting depth <=6, up to 4 tasks spawned from inside and outside blocks, each entering/leaving its own "
            "contexts; exits by return / Exception / BaseException / failing teardown; current_context() and "
            "Context.parent sampled throughout. Non-trivial: >=2 tasks each with an open block at the same time, or a "
            "block left by an exception or with a raising teardown callback followed by a current_context() sample")
    assumptions = ["task-locality is contextvars' semantics (in the model it holds by construction: the weight is on the "
                   "correspondence)", "cancellation as a way of leaving a block is not generated"]

    def nontrivial(self, case, impl):
        open_by: dict[int, int] = {}
        abnormal = False
        for op, r in zip(case["ops"], impl):
            if op["op"] == "enter" and r["res"][:1] == ["ok"]:
                open_by[op["t"]] = open_by.get(op["t"], 0) + 1
                if sum(1 for v in open_by.values() if v > 0) >= 2:
                    return True
            elif op["op"] == "exit":
                open_by[op["t"]] = open_by.get(op["t"], 0) - 1
                if r["res"] and r["res"][-1].startswith("raised"):
                    abnormal = True
            elif op["op"] == "current" and abnormal:
                return True
        return False


PROP = C12()
