"""C09 — task factories: inherited context, exact handle set, teardown waits, errors kept (mode T)."""

from __future__ import annotations

import random
from typing import Any, Iterator

from ..core import Prop


def gen_case(rng: random.Random) -> dict[str, Any]:
    n = rng.randint(0, 6)
    specs = []
    script: list[dict[str, Any]] = []
    exit_at = rng.choice([1, 3, 5, 8])
    top = [h for h in range(1, n + 1)]
    children: dict[int, list[int]] = {}
    # some tasks are spawned by other background tasks
    spawned_by_script = []
    for h in top:
        if spawned_by_script and rng.random() < 0.2:
            children.setdefault(rng.choice(spawned_by_script), []).append(h)
        else:
            spawned_by_script.append(h)
    for h in top:
        r = rng.random()
        if r < 0.55:
            beh: dict[str, Any] = {"ends": rng.choice([0, 1, 2, 4, 7, 10]), "exc": None}
        elif r < 0.75:
            beh = {"ends": rng.choice([0, 1, 3, 6]), "exc": rng.randrange(3)}
        else:
            beh = {"forever": True}
            if rng.random() < 0.3:
                beh["excOnCancel"] = rng.randrange(3)       # raises while unwinding from the cancellation
        specs.append({"h": h, "beh": beh, "children": children.get(h, [])})
        if rng.random() < 0.25:
            specs[-1]["close_ticks"] = rng.choice([0.35, 0.7, 1.15])    # the task's own context takes this long to tear down
    for h in spawned_by_script:
        at = rng.randint(0, max(0, exit_at - 1))
        step = {"at": at, "op": "spawn", "h": h, "via": rng.choice(["task", "soon"]),
                "from": rng.choice(["owner", "owner", "nested", "service"])}
        if step["via"] == "soon" and step["from"] in ("owner", "nested") and rng.random() < 0.2:
            # cancelled through its handle in the very instant it was spawned, before it ran at all
            step["cancelNow"] = True
            if rng.random() < 0.6:
                script.append({"at": at + 0.25, "op": "wait", "h": h})
        if step["via"] == "task" and step["from"] == "owner" and rng.random() < 0.45:
            sp = next(s for s in specs if s["h"] == h)
            if "forever" in sp["beh"] or (sp["beh"]["ends"] >= 1 and sp["beh"]["exc"] is None):
                sp["startDelay"] = 0.6          # takes task_status, calls started() 0.6 ticks after it began
                r2 = rng.random()
                if r2 < 0.3 and not sp["children"] and "excOnCancel" not in sp["beh"] and "close_ticks" not in sp:
                    sp["startFails"] = rng.randrange(3)     # … or rather fails at that point, before started()
                    sp["beh"] = {"ends": 1, "exc": None}
                elif r2 < 0.6 and not sp["children"] and "excOnCancel" not in sp["beh"]:
                    sp["abandonAt"] = 0.3                   # … but its caller gives up after 0.3 ticks
        script.append(step)
    for s in specs:
        if "startFails" in s or "abandonAt" in s:
            continue        # (no handle is ever returned for these)
        if "forever" in s["beh"] or rng.random() < 0.15:
            # cancelled through the handle (always, for tasks that never end by themselves)
            script.append({"at": rng.randint(0, exit_at - 1) + 0.25, "op": "cancel", "h": s["h"]})
        if rng.random() < 0.3:
            # one or several callers wait for the same task (at different moments, possibly all while it is running)
            for k in range(rng.choice([1, 1, 2, 3])):
                script.append({"at": rng.randint(0, exit_at - 1) + 0.25 + 0.05 * k, "op": "wait", "h": s["h"]})
    for t in range(exit_at):
        if rng.random() < 0.7:
            script.append({"at": t + 0.5, "op": "observe"})
    if rng.random() < 0.5:
        script.append({"at": rng.randint(0, exit_at - 1) + 0.1, "op": "res", "v": 77})
    # forever tasks spawned by other tasks may begin after their cancel: make sure a late cancel exists
    for s in specs:
        if "forever" in s["beh"] and "abandonAt" not in s:
            script.append({"at": exit_at - 0.05, "op": "cancel", "h": s["h"]})
    script.sort(key=lambda x: x["at"])
    return {"kind": "factory", "handler": rng.choice([None, True, False]), "handler_obj": rng.choice([None, None, "truthy", "falsy"]),
            "factory_via_shortcut": (via_sc := rng.random() < 0.4), "factory_from_nested": not via_sc and rng.random() < 0.4,
            "pre_res": rng.sample([1, 2, 3], rng.randint(0, 3)),
            "specs": specs, "script": script, "exit_at": exit_at, "nested_owner": rng.random() < 0.4,
            # a failure that is remembered and raised again: tasks failing in the same way raise one and the same
            # exception object
            "shared_exc": rng.random() < 0.3,
            # the block of the owning context ends with an exception (one case in four)
            "exit_exc": rng.random() < 0.25}


class C09(Prop):
    id = "C09"
    quick_cases = 500
    thorough_cases = 20000
    rule = ("0-6 background tasks started with start_task / start_task_soon from the owner's block, a nested context, "
            "another service task and other background tasks; outcomes return / raise / cancelled through the handle / "
            "still running at teardown; exception handler absent / truthy / falsy; all_task_handles() sampled every "
            "tick (at x.5, never tying with a task event); wait_finished() callers; resources added to the owner "
            "before and after the factory was started; owner torn down after 1-8 ticks; both back-ends. Non-trivial: "
            ">=2 tasks alive when teardown begins, or a task spawned from a foreign context")
    assumptions = ["BaseExceptions escaping a task bypass the handler (by design, not judged)",
                   "the factory's own context is identified as the common parent of the task contexts whose parent is the owner"]

    def generate(self, rng: random.Random, tier: str, index: int) -> dict[str, Any]:
        case = gen_case(rng)
        case["backend"] = ("asyncio", "trio")[index % 2]
        return case

    def run_impl(self, case):
        from ..impl.factory import run_factory_case

        return run_factory_case(case)

    def model_request(self, case, impl):
        return {"kind": "factory", "specs": case["specs"], "handler": case["handler"], "snap": sorted(case["pre_res"]),
                "trace": [e["l"] for e in impl["trace"] if e["l"][0] not in ("startedCalled", "waitAsked", "probeFailed")]}

    def compare(self, case, impl, model):
        if impl["hang"]:
            return "the run did not finish"
        if not model["accepted"]:
            tr = [e["l"] for e in impl["trace"] if e["l"][0] not in ("startedCalled", "waitAsked")]
            return f"the observed trace is not a run of the model: label #{model['at']} not enabled: {tr[max(0, model['at'] - 5): model['at'] + 2]}"
        if not model["reported"]:
            return "no outcome was reported"
        if impl["other_exception"] and not model["crashed"]:
            # (after a task's exception took the application down the script itself may fail)
            return f"unexpected exception surfaced: {impl['other_exception']}"
        return None

    def monitor(self, case, impl):
        fails = []
        tr = impl["trace"]
        labels = [e["l"] for e in tr]
        crashed = []
        handler = case["handler"]
        start_fails = {s["h"] for s in case["specs"] if s.get("startFails") is not None}
        for e in tr:
            # (the exception of a task that fails before started() goes to the caller of start_task())
            if e["l"][0] == "taskEnded" and e["l"][2] is not None and not handler and e["l"][1] not in start_fails:
                crashed.append(e["l"][2])
        out = next((l[1] for l in labels if l[0] == "outcome"), None)
        if impl["hang"]:
            fails.append("teardown never finished")
        for l in labels:
            if l[0] == "probeFailed":
                fails.append(f"task {l[1]}: {l[2]}")
        if sorted(crashed) != (out or []):
            fails.append(f"exceptions escaping tasks {sorted(crashed)} (handler {handler}); the caller saw {out}")
        end_t: dict[int, float] = {}
        spawn_t: dict[int, float] = {}
        for e in tr:
            l = e["l"]
            if l[0] == "spawn":
                spawn_t[l[1]] = e["t"]
            elif l[0] == "taskEnded":
                end_t[l[1]] = e["t"]
        for k, e in enumerate(tr):
            l = e["l"]
            if l[0] == "observed" and not crashed:
                want = sorted(h for h, t in spawn_t.items() if t <= e["t"] and end_t.get(h, 1e18) > e["t"])
                if l[1] != want:
                    fails.append(f"all_task_handles() at t={e['t']} = {l[1]}, the spawned tasks that have not finished are {want}")
            elif l[0] == "observed":
                # after an exception has escaped a task the others are being cancelled; still, a task that ended in an
                # earlier instant is not in the handle set, and nothing is that was never spawned
                stale = sorted(h for h in l[1] if end_t.get(h, 1e18) < e["t"] - 1e-9 or h not in spawn_t)
                if stale:
                    fails.append(f"all_task_handles() at t={e['t']} = {l[1]} still lists {stale}, which ended at "
                                 f"{[end_t.get(h) for h in stale]}")
            elif l[0] == "taskBegan":
                if not l[2]:
                    fails.append(f"task {l[1]} does not run in a fresh context inheriting from the factory's own context")
                if l[3] != sorted(case["pre_res"]):
                    fails.append(f"task {l[1]} sees resources {l[3]}; the factory's snapshot is {sorted(case['pre_res'])}")
            elif l[0] == "cancelSeen" and not crashed:
                if not any(x == ["cancelReq", l[1]] for x in labels[:k]):
                    fails.append(f"task {l[1]} was cancelled although nobody cancelled its handle")
            elif l[0] == "waitReturned":
                if l[1] not in end_t or end_t[l[1]] > e["t"]:
                    fails.append(f"wait_finished() of task {l[1]} returned before the task had ended")
            elif l[0] == "blockLeft" and not crashed:
                late = [h for h in spawn_t if end_t.get(h, 1e18) > e["t"]]
                if late:
                    fails.append(f"the owner's block was left while tasks {late} were still running")
        for h in spawn_t:
            spec = next(s for s in case["specs"] if s["h"] == h)
            exc = spec["beh"].get("exc")
            if spec.get("startFails") is not None:
                exc = spec["startFails"]
            if exc is None:
                exc = spec["beh"].get("excOnCancel")      # raised by the task's clean-up after a cancel through its handle
            calls = sum(1 for l in labels if l[0] == "handlerCalled" and l[1] == h)
            raised = any(l == ["taskEnded", h, exc] for l in labels) if exc is not None else False
            if handler is not None and raised and calls != 1:
                fails.append(f"the exception handler was called {calls} times for the exception of task {h}")
            if (handler is None or not raised) and calls:
                fails.append(f"the exception handler was called for task {h} which raised nothing")
        # waits return in the instant their task ends
        for e in tr:
            if e["l"][0] == "waitReturned":
                h = e["l"][1]
                reqs = [x["t"] for x in tr if x["l"] == ["waitAsked", h]] or [0]
                if h in end_t and all(abs(e["t"] - max(req, end_t[h])) > 1e-6 for req in reqs):
                    fails.append(f"wait_finished() of task {h} returned at t={e['t']}, the task ended at {end_t[h]}")
        # every wait_finished() on a spawned task returns once the task has ended
        for h in spawn_t:
            asked = sum(1 for l in labels if l == ["waitAsked", h])
            got = sum(1 for l in labels if l == ["waitReturned", h])
            if got < asked and not crashed:
                fails.append(f"wait_finished() of task {h} never returned for {asked - got} of its {asked} callers "
                             f"(the task {'ended at t=%s' % end_t[h] if h in end_t else 'never reported its end'})")
        return ["[C09] " + f for f in dict.fromkeys(fails)]

    def nontrivial(self, case, impl):
        tr = impl["trace"]
        eb = next((e["t"] for e in tr if e["l"][0] == "exitBegin"), None)
        if eb is None:
            return False
        spawn_t = {e["l"][1]: e["t"] for e in tr if e["l"][0] == "spawn"}
        end_t = {e["l"][1]: e["t"] for e in tr if e["l"][0] == "taskEnded"}
        alive = [h for h, t in spawn_t.items() if t <= eb and end_t.get(h, 1e18) > eb]
        foreign = any(s["op"] == "spawn" and s["from"] != "owner" for s in case["script"]) or any(s.get("children") for s in case["specs"])
        return len(alive) >= 2 or (foreign and bool(spawn_t))

    def features(self, case, impl):
        f = {"backend_" + case["backend"], "handler_" + str(case["handler"]), f"tasks_{len(case['specs'])}"}
        for e in impl["trace"]:
            f.add("label_" + e["l"][0])
        ended = [e["l"][2] for e in impl["trace"] if e["l"][0] == "taskEnded" and e["l"][2] is not None]
        if case.get("exit_exc"):
            f.add("owner_block_raised")
        if case.get("shared_exc") and len(ended) != len(set(ended)):
            f.add("one_exception_object_raised_by_several_tasks")
        for s in case["script"]:
            if s["op"] == "spawn":
                f.add("from_" + s["from"])
                f.add("via_" + s["via"])
        return sorted(f)

    def shrink(self, case) -> Iterator[dict[str, Any]]:
        sc = case["script"]
        forever = {s["h"] for s in case["specs"] if "forever" in s["beh"]}
        for i in reversed(range(len(sc))):
            if sc[i]["op"] != "spawn":
                if sc[i]["op"] == "cancel" and sc[i]["h"] in forever and \
                        not any(x["op"] == "cancel" and x["h"] == sc[i]["h"] for x in sc[i + 1:]):
                    continue        # a task that never ends by itself keeps its last cancel (else teardown waits for ever)
                yield {**case, "script": sc[:i] + sc[i + 1:]}
        for i in reversed(range(len(sc))):
            if sc[i]["op"] == "spawn":
                h = sc[i]["h"]
                if not any(h in s.get("children", []) for s in case["specs"]) and not next(s for s in case["specs"] if s["h"] == h).get("children"):
                    yield {**case, "script": [s for s in sc if s.get("h") != h], "specs": [s for s in case["specs"] if s["h"] != h]}
        if case["nested_owner"]:
            yield {**case, "nested_owner": False}
        if case["backend"] == "trio":
            yield {**case, "backend": "asyncio"}


PROP = C09()
