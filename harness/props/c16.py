"""C16 — `asphalt run`: configuration precedence and service selection (mode E).

The command is run in-process (`main.main([...], standalone_mode=False)`) with
`run_application` replaced by a recorder; the thorough tier adds real subprocess runs.
"""

from __future__ import annotations

import copy
import os
import random
import re
import subprocess
import sys
import tempfile
from pathlib import Path
from typing import Any, Iterator
from unittest import mock

from ..canon import from_cfg, to_cfg
from ..core import Prop
from ..gen_cfg import gen_dict, gen_overlapping
from .c17 import spec_merge

TOP_KEYS = ["logging", "max_threads", "start_timeout", "x", "a.b", "nested", "backend", "backend_options"]
COMP_KEYS = ["a", "b", "c", "x.y", "opts", "components"]
SERVICE_NAMES = ["default", "web", "worker", "s.1", "x"]
ERRS = [
    ("Configuration must be set with '='", "noEquals"),
    ("Cannot apply override", "notMapping"),
    ('The "services" key must be a dict', "servicesNotDict"),
    ("No services have been defined", "noServices"),
    ("has not been defined", "serviceNotFound"),
    ("Multiple services present", "ambiguous"),
    ("missing the 'component' key", "noComponent"),
    ("missing the 'type' key", "noType"),
]


def gen_component(rng: random.Random, with_type: float = 0.9) -> dict[str, Any]:
    d = gen_dict(rng, 2, 3, COMP_KEYS)
    if rng.random() < with_type:
        d["type"] = rng.choice(["mod:Root", "rootep", "other:Cls"])
    else:
        d.pop("type", None)
    return d


def gen_section(rng: random.Random, p_component: float) -> dict[str, Any]:
    d = gen_dict(rng, 2, 3, TOP_KEYS)
    if rng.random() < p_component:
        d["component"] = gen_component(rng)
    items = list(d.items())
    rng.shuffle(items)
    return dict(items)


def gen_file(rng: random.Random, layout: str) -> dict[str, Any]:
    d: dict[str, Any] = gen_dict(rng, 2, 3, TOP_KEYS)
    if layout in ("component", "both") or (layout == "services" and rng.random() < 0.1):
        d["component"] = gen_component(rng)
    if layout in ("services", "both"):
        n = rng.choice([0, 1, 1, 2, 2, 3])
        names = rng.sample(SERVICE_NAMES, n)
        svcs: dict[str, Any] = {}
        for nm in names:
            svcs[nm] = None if rng.random() < 0.05 else gen_section(rng, 0.85)
        d["services"] = svcs
    elif layout == "badservices":
        d["services"] = rng.choice([None, 5, "x", [1]])
    items = list(d.items())
    rng.shuffle(items)
    return dict(items)


def escape_part(p: str) -> str:
    return p.replace(".", "\\.")


def gen_set(rng: random.Random, files: list[dict[str, Any]]) -> str:
    r = rng.random()
    if r < 0.04:
        return rng.choice(["novalue", "a.b", ""])
    if r < 0.12:  # raw keys exercising the split regex
        key = "".join(rng.choice("ab..\\") for _ in range(rng.randint(1, 6)))
    else:
        # walk an existing path (through dictionaries, mostly) or make a new one
        parts: list[str] = []
        cur: Any = rng.choice(files) if files and rng.random() < 0.85 else {}
        n = rng.randint(1, 4)
        for i in range(n):
            last = i == n - 1
            dict_keys = [k for k, v in cur.items() if isinstance(v, dict)] if isinstance(cur, dict) else []
            if not last and dict_keys and rng.random() < 0.9:
                k = rng.choice(dict_keys)
                cur = cur[k]
            elif isinstance(cur, dict) and cur and rng.random() < (0.6 if last else 0.08):
                k = rng.choice(list(cur))
                cur = cur[k]
            else:
                k = rng.choice(COMP_KEYS + TOP_KEYS + ["component", "default", "web", "type"])
                cur = cur.get(k) if isinstance(cur, dict) and rng.random() < 0.5 else {}
            parts.append(k)
        key = ".".join(escape_part(p) for p in parts)
    val = rng.choice(["5", "true", "null", "[1, 2]", "{a: 1, b: {c: 2}}", "text", "", "1.5", "'q=r'", "{}", "0"])
    return f"{key}={val}"


class C16(Prop):
    id = "C16"
    quick_cases = 700
    thorough_cases = 30000
    rule = ("1-4 YAML files with overlapping nested keys, 0-4 --set (nested, escaped dots, raw keys, YAML-typed values, "
            "missing '='), service layouts none/one/several/with-without default, all 4 combinations of --service and "
            "ASPHALT_SERVICE; non-trivial = run_application was reached with >=2 files or >=1 --set and a "
            "services section, or an error of the selection ladder")
    assumptions = ["PyYAML parsing, click argument handling, os.environ: implementation side only",
                   "layouts with both a top-level component and services are compared with the model but not judged by the monitor"]

    def generate(self, rng: random.Random, tier: str, index: int) -> dict[str, Any]:
        layout = rng.choices(["component", "services", "both", "none", "badservices"], [3, 6, 1, 0.3, 0.2])[0]
        nfiles = rng.choice([0, 1, 1, 1, 2, 2, 2, 3, 3, 4])
        files: list[dict[str, Any]] = []
        for i in range(nfiles):
            if i == 0 or rng.random() < 0.3:
                files.append(gen_file(rng, layout))
            else:
                f = gen_overlapping(rng, files[-1], 4, TOP_KEYS + COMP_KEYS)
                # keep component sections dictionaries
                files.append(_fix_components(f, rng))
        if nfiles >= 3 and index % 2 == 0:
            # a mapping in one file, something that is not a mapping in the next, a mapping again in the one after: the
            # files are merged strictly in order (merging is not associative: what the middle one wiped out stays gone)
            files[-3]["nested"] = {"p": 1, "q": {"r": 2}}
            files[-2]["nested"] = [None, 5, [1], "s"][(index // 2) % 4]
            files[-1]["nested"] = {"s": 3, "q": {"t": 4}}
        sets = [gen_set(rng, files) for _ in range(rng.choice([0, 0, 1, 1, 2, 3, 4]))]
        if sets and rng.random() < 0.3:
            # the same key path given again later (with other overrides in between), and an override
            # below / above a path set earlier: overrides apply strictly in command-line order
            base = rng.choice(sets)
            if "=" in base:
                key = base.split("=", 1)[0]
                extra = [f"{key}={rng.choice(['7', '{z: 1}', 'again', '{a: {b: 3}}'])}"]
                if rng.random() < 0.6:
                    extra.insert(0, f"{key}.a={rng.choice(['8', '{c: 4}'])}")
                if rng.random() < 0.4:
                    extra.append(f"{key}.z=9")
                sets += extra
        defined = []
        for f in files:
            s = f.get("services")
            if isinstance(s, dict):
                defined += [k for k in s if k not in defined]
        pick = lambda: rng.choice(defined) if defined and rng.random() < 0.85 else rng.choice(SERVICE_NAMES + ["", "nope"])
        svc = pick() if rng.random() < 0.35 else None
        env = pick() if rng.random() < 0.3 else None
        case = {"kind": "cli", "files": [to_cfg(f) for f in files], "sets": sets, "svc": svc, "env": env}
        if index % 5 == 1 and files and isinstance(files[0].get("services"), dict):
            # "YAML references" (an anchor and a plain alias, as the deployment guide recommends for files with several
            # services): two services share one component mapping, a later file overrides inside the one, the other is
            # selected. (No --set here: writing through a shared mapping is Python's aliasing, not the statement's.)
            secs = [k for k, v in files[0]["services"].items() if isinstance(v, dict)]
            withc = [k for k in secs if isinstance(files[0]["services"][k].get("component"), dict)]
            if withc and len(secs) >= 2:
                a = withc[0]
                b = next(k for k in secs if k != a)
                comp = files[0]["services"][a]["component"]
                comp["shared_opts"] = {"host": "h1", "tls": True}
                files[0]["services"][b]["component"] = copy.deepcopy(comp)
                overlay = {"services": {a: {"component": {"shared_opts": {"host": "h2", "tls": False}, "only_a": 1}}}}
                case = {"kind": "cli", "files": [to_cfg(f) for f in [files[0], overlay]], "sets": [], "svc": b, "env": None,
                        "alias": [a, b]}
        return case

    # ---- implementation side
    def run_impl(self, case: dict[str, Any]) -> Any:
        import click
        import yaml

        from asphalt.core._cli import main

        files = [from_cfg(f) for f in case["files"]]
        if case.get("alias"):
            a, b = case["alias"]
            files[0]["services"][b]["component"] = files[0]["services"][a]["component"]      # dumped as &anchor / *alias
        files0 = copy.deepcopy(files)
        with tempfile.TemporaryDirectory(prefix="verif-c16-") as td:
            paths = []
            for i, f in enumerate(files):
                p = Path(td) / f"f{i}.yaml"
                p.write_text(yaml.safe_dump(f, sort_keys=False, default_flow_style=False))
                paths.append(str(p))
            argv = ["run", *paths]
            for s in case["sets"]:
                argv += ["--set", s]
            if case["svc"] is not None:
                argv += ["--service", case["svc"]]
            old = os.environ.pop("ASPHALT_SERVICE", None)
            if case["env"] is not None:
                os.environ["ASPHALT_SERVICE"] = case["env"]
            calls: list[Any] = []
            nested: dict[str, Any] = {}

            def invoke(args: list[str]) -> Any:
                """One invocation whose application is a recorder: what it was started with, or how it failed."""
                seen: list[Any] = []
                with mock.patch("asphalt.core._cli.run_application", lambda c, cfg=None, **kw: seen.append((to_cfg(c), to_cfg(cfg), to_cfg(kw)))):
                    try:
                        main.main(args, standalone_mode=False)
                    except Exception as e:  # noqa: BLE001
                        return ("failed", type(e).__name__, seen)
                return ("ok", seen)

            # a second invocation with no --service, (a) on its own beforehand and (b) made while the application of the
            # first is running (what a supervisor running several services in one process does): the same outcome,
            # invocations do not leak into each other
            argv2 = ["run", *paths] + [x for s_ in case["sets"] for x in ("--set", s_)]
            alone = invoke(argv2) if case["svc"] is not None else None

            def recorder(component_class: Any, config: Any = None, **kwargs: Any) -> None:
                calls.append((component_class, config, kwargs))
                if alone is not None and not nested:
                    nested["r"] = invoke(argv2)

            try:
                with mock.patch("asphalt.core._cli.run_application", recorder):
                    try:
                        main.main(argv, standalone_mode=False)
                        outcome: dict[str, Any] = {"status": "ok"}
                    except click.ClickException as e:
                        # which error it is can only be told from the wording of the message: an unrecognised
                        # wording counts as "some usage error" and matches any error the model expects
                        kind = next((k for pat, k in ERRS if pat in e.message), "usageError")
                        outcome = {"status": "err", "err": kind}
                    except Exception as e:  # noqa: BLE001 - anything else is a crash of the command
                        outcome = {"status": "err", "err": "crash", "exc": type(e).__name__}
            finally:
                os.environ.pop("ASPHALT_SERVICE", None)
                if old is not None:
                    os.environ["ASPHALT_SERVICE"] = old
        outcome["calls"] = len(calls)
        if nested and nested["r"] != alone:
            outcome["nested_differs"] = f"on its own: {str(alone)[:300]}; while another invocation's application was running: {str(nested['r'])[:300]}"
        if calls:
            cls, cfg, kw = calls[0]
            kw = dict(kw)
            outcome["ok"] = {
                "type": to_cfg(cls), "component": to_cfg(cfg),
                "backend": to_cfg(kw.pop("backend", None)), "backend_options": to_cfg(kw.pop("backend_options", None)),
                "kwargs": to_cfg(kw),
            }
        # what the model is given: the parsed documents and the parsed --set values (YAML parsing is not modelled)
        sets = []
        for s in case["sets"]:
            if "=" not in s:
                sets.append([s, None])
            else:
                k, v = s.split("=", 1)
                sets.append([k, to_cfg(yaml.safe_load(v))])
        outcome["parsed_sets"] = sets
        outcome["expected"] = expected_by_statement(files0, sets, case["svc"], case["env"])
        return outcome

    def model_request(self, case, impl):
        return {"kind": "cli", "files": case["files"], "sets": impl["parsed_sets"], "svc": case["svc"], "env": case["env"]}

    def compare(self, case, impl, model):
        if "err" in model:
            # (which of several problems of one command line is reported, and in which words, is not the statement's
            # business: an error is an error; a crash of the command is not)
            # (inputs the statement does not cover - a non-mapping component section, say - crash the command today, and
            # the model says so: any way of failing is as good there)
            if impl["status"] == "err" and impl["expected"] == "malformed":
                return None     # (how a section that is no mapping is rejected - usage error or exception - is nobody's promise)
            if impl["status"] != "err" or (impl["err"] == "crash" and model["err"] != "crash"):
                return f"model: error {model['err']}; implementation: {impl['status']} {impl.get('err')} {impl.get('exc', '')}"
            if impl["calls"]:
                return "implementation started the application although the command failed"
            return None
        if impl["status"] != "ok":
            return f"model: ok; implementation: error {impl.get('err')}"
        if impl.get("ok") != model["ok"]:
            return f"run_application arguments differ: model {model['ok']} vs implementation {impl.get('ok')}"
        return None

    def monitor(self, case, impl):
        exp = impl["expected"]
        fails = []
        if impl.get("nested_differs"):
            fails.append("an invocation without --service behaves differently while the application of another invocation "
                         "(with --service) is running in the same process: " + impl["nested_differs"])
        if exp is None or exp == "malformed":  # outside the statement (both component and services, malformed sections)
            return fails
        if impl["status"] == "err" and impl["calls"]:
            fails.append("the command failed but started the application")
        if "err" in exp:
            if impl["status"] != "err":
                fails.append(f"the statement demands an error ({exp['err']}) but the application was started")
            elif impl["err"] == "crash":
                fails.append(f"the statement demands a usage error ({exp['err']}); the command crashed with {impl.get('exc')}")
        else:
            if impl["status"] != "ok":
                if impl["err"] != "crash":
                    fails.append(f"the statement demands a start but the command failed with {impl['err']}")
            elif impl["ok"] != exp["ok"]:
                fails.append("configuration handed to run_application differs from the documented precedence")
        return fails

    def nontrivial(self, case, impl):
        if impl["status"] == "ok":
            return (len(case["files"]) >= 2 or len(case["sets"]) >= 1) and any(
                any(k == "services" for k, _ in f["d"]) for f in case["files"])
        return impl["err"] in ("serviceNotFound", "ambiguous", "noServices", "usageError")

    def features(self, case, impl):
        f = [f"files_{len(case['files'])}", f"sets_{len(case['sets'])}",
             "svc_opt" if case["svc"] is not None else "no_svc_opt", "svc_env" if case["env"] is not None else "no_svc_env",
             "outcome_" + (impl["err"] if impl["status"] == "err" else "ok")]
        if any("\\." in s for s in case["sets"]):
            f.append("escaped_dot")
        return f

    def shrink(self, case) -> Iterator[dict[str, Any]]:
        from .c17 import _shrink_cfg

        for i in range(len(case["sets"])):
            yield {**case, "sets": case["sets"][:i] + case["sets"][i + 1:]}
        for i in range(len(case["files"])):
            if len(case["files"]) > 1:
                yield {**case, "files": case["files"][:i] + case["files"][i + 1:]}
        if case["svc"] is not None:
            yield {**case, "svc": None}
        if case["env"] is not None:
            yield {**case, "env": None}
        for i, f in enumerate(case["files"]):
            for s in _shrink_cfg(f):
                yield {**case, "files": case["files"][:i] + [s] + case["files"][i + 1:]}


def _fix_components(d: dict[str, Any], rng: random.Random) -> dict[str, Any]:
    if "component" in d and not isinstance(d["component"], dict):
        d["component"] = gen_component(rng)
    s = d.get("services")
    if isinstance(s, dict):
        for k, v in list(s.items()):
            if isinstance(v, dict):
                if "component" in v and not isinstance(v["component"], dict):
                    v["component"] = gen_component(rng)
            elif v is not None:
                s[k] = gen_section(rng, 0.8)
    return d


def expected_by_statement(files: list[dict[str, Any]], sets: list[list[Any]], svc: str | None, env: str | None) -> Any:
    """The property statement, literally. Returns None where the statement does not apply."""
    config: dict[str, Any] = {}
    for f in files:
        config = spec_merge(config, f)
    config = copy.deepcopy(config)
    for key, val in sets:
        if val is None:
            return {"err": "noEquals"}
        parts = [p.replace("\\.", ".") for p in re.split(r"(?<!\\)\.", key)]
        sec = config
        for p in parts[:-1]:
            if p not in sec:
                sec[p] = {}
            sec = sec[p]
            if not isinstance(sec, dict):
                return {"err": "notMapping"}
        sec[parts[-1]] = from_cfg(val)
    services = config.pop("services", {})
    if not isinstance(services, dict):
        return {"err": "servicesNotDict"}
    if "component" in config and services:
        return None  # both: outside the statement
    if "component" in config:
        services = {"default": {"component": config.pop("component")}}
    name = svc or env or None
    if not services:
        return {"err": "noServices"}
    if name:
        if name not in services:
            return {"err": "serviceNotFound"}
        section = services[name]
    elif len(services) == 1:
        section = next(iter(services.values()))
    elif "default" in services:
        section = services["default"]
    else:
        return {"err": "ambiguous"}
    if section is not None and not isinstance(section, dict):
        return "malformed"          # a service section that is no mapping: not an input the statement speaks about
    config = spec_merge(config, section)
    if "component" not in config:
        return {"err": "noComponent"}
    comp = config.pop("component")
    if not isinstance(comp, dict):
        return "malformed"          # … nor a component section that is no mapping
    comp = dict(comp)
    if "type" not in comp:
        return {"err": "noType"}
    ty = comp.pop("type")
    backend = config.pop("backend", "asyncio")
    bo = config.pop("backend_options", {})
    return {"ok": {"type": to_cfg(ty), "component": to_cfg(comp), "backend": to_cfg(backend),
                   "backend_options": to_cfg(bo), "kwargs": to_cfg(config)}}


PROP = C16()
