"""Development-only: generic kernel correspondence (not a property)."""
from ..kernel_prop import KernelProp


class K00(KernelProp):
    id = "K00"
    quick_cases = 300
    rule = "dev"


PROP = K00()
