"""C19 — @inject is equivalent to explicit lookups in the current context."""
import random

from ..core import Composite
from ..gen_kernel import KGen
from ..kernel_prop import KernelProp
from ..startup_prop import StartupProp


class InjGen(KGen):
    def task(self) -> int:
        # injected calls are mostly made from tasks that have a current context
        with_ctx = [t for t, c in self.cur.items() if c is not None]
        if with_ctx and self.rng.random() < 0.85:
            return self.rng.choice(with_ctx)
        return super().task()


class C19Kernel(KernelProp):
    kinds = ("ctx",)
    id = "C19"
    tags = ("C19",)
    quick_cases = 700
    thorough_cases = 30000
    n_ops = (10, 40)
    weights = {"new": 10, "enter": 14, "exit": 4, "add": 18, "addf": 12, "getnw": 4, "get": 3, "finish": 1,
               "getall": 1, "addtd": 0, "current": 1, "parent": 0, "spawn": 3, "state": 0, "inject": 30, "decorate": 8}
    gen_kwargs = {"max_ctx": 8, "malformed": 0.02, "wrong_state": 0.03, "gated": 0.1, "exc_end": 0.2, "p_again": 0.35, "p_forget": 0.7, "p_comp": 0.3}
    rule = ("functions generated as source text and exec'd: positional, keyword-only and defaulted ordinary parameters, "
            "1-4 injected parameters (positional-or-keyword and keyword-only), annotations T, 'T' (forward reference), "
            "Optional[T], T | None, 'T | None', Union[T, None], Union of two types; sync and async functions; resources "
            "static / factory-made (sync, async) / inherited / missing; calls from nested contexts and spawned tasks; "
            "decoration-time misuse (positional-only, unannotated, uncalled marker). Non-trivial: an injected call whose "
            "body ran with >=2 injected parameters, or that triggered a factory, or that failed on a missing resource")
    assumptions = ["annotation resolution (get_type_hints, forward references, PEP 604) is Python's; the model receives the "
                   "resolved (type, name, optional) triples"]

    def make_gen(self, rng: random.Random, tier: str) -> KGen:
        return InjGen(rng, self.weights, **self.gen_kwargs)

    def exhaustive(self, tier: str):
        """One injected coroutine function called concurrently by two tasks whose current contexts are two
        different children of one context: each call must get its own context's resources although both
        suspend (in the inherited asynchronous factory) between resolving the first and the last parameter."""
        def add(t, c, ty, name, val):
            return {"op": "add", "t": t, "c": c, "types": [ty], "vt": ty, "name": name, "val": val, "desc": None,
                    "badType": False, "badPos": False, "single": True, "td": None, "tdBad": False, "via": "method"}

        cases = []
        for backend in ("asyncio", "trio"):
            for order in ((0, 1), (1, 0)):
                for form, opt in (("plain", False), ("optional", True), ("str", False)):
                    for n_static in (1, 2):
                        deps = [{"param": f"r{k}", "ty": 0, "name": f"a{k}", "opt": opt, "form": form, "kind": "normal"}
                                for k in range(n_static)]
                        deps.append({"param": "last", "ty": 1, "name": "b", "opt": False, "form": "plain", "kind": "kwonly"})
                        inj = {"op": "inject", "async": True, "deps": deps, "others": [], "badUnion": False, "future": False,
                               "pair": 1}
                        ops = [{"op": "new", "t": 0, "c": 1, "parent": None}, {"op": "enter", "t": 0, "c": 1},
                               {"op": "addf", "t": 0, "c": 1, "types": [1], "name": "b", "fid": 1, "desc": None, "async": True,
                                "gated": False, "failFirst": 0, "noneIn": False, "annot": False, "single": True, "via": "method"},
                               {"op": "new", "t": 0, "c": 2, "parent": 1}, {"op": "new", "t": 0, "c": 3, "parent": 1},
                               {"op": "spawn", "t": 0, "t2": 1},
                               {"op": "enter", "t": 0, "c": 2}, {"op": "enter", "t": 1, "c": 3}]
                        for k in range(n_static):
                            ops += [add(0, 2, 0, f"a{k}", 10 + k), add(1, 3, 0, f"a{k}", 20 + k)]
                        ops += [{**inj, "t": order[0], "first": True}, {**inj, "t": order[1], "first": False},
                                {"op": "exit", "t": 1, "c": 3, "end": {"k": "ret"}}, {"op": "exit", "t": 0, "c": 2, "end": {"k": "ret"}},
                                {"op": "exit", "t": 0, "c": 1, "end": {"k": "ret"}}]
                        cases.append({"kind": "ctx", "backend": backend, "origin": f"pair:{order}:{form}:{n_static}", "ops": ops})
        # several injected functions defined and decorated in one enclosing function before any of them is called,
        # their annotations naming classes local to that function (forward references resolved at the first call)
        for backend in ("asyncio", "trio"):
            for is_async in (False, True):
                for form, opt in (("plain", False), ("optional", True), ("pep604", True)):
                    mates = [{"async": is_async, "others": [],
                              "deps": [{"param": "r", "ty": k, "name": "a", "opt": opt, "form": form, "kind": "normal"}]}
                             for k in (0, 1, 0)]
                    ops = [{"op": "new", "t": 0, "c": 1, "parent": None}, {"op": "enter", "t": 0, "c": 1},
                           add(0, 1, 0, "a", 5), add(0, 1, 1, "a", 6)]
                    for me, m in enumerate(mates):
                        ops.append({"op": "inject", "t": 0, **m, "badUnion": False, "future": True, "scope": 1, "me": me,
                                    "mates": mates})
                    ops.append({"op": "exit", "t": 0, "c": 1, "end": {"k": "ret"}})
                    cases.append({"kind": "ctx", "backend": backend, "origin": f"scope:{is_async}:{form}", "ops": ops})
        return cases

    def nontrivial(self, case, impl):
        for op, r in zip(case["ops"], impl):
            if op["op"] == "inject":
                if r["res"][-1:] == ["called"] and (len(op["deps"]) >= 2 or r["ev"]):
                    return True
                if r["res"] == ["notFound"]:
                    return True
        return False


class C19Startup(StartupProp):
    """Injected coroutine functions called from a component's start()/prepare(): the lookup they stand for is the
    component's own get_resource(), which waits for a sibling to publish what is missing."""
    id = "C19"
    kinds = ("startup",)
    tags = ("C19", "C06")
    gen_kwargs = {"max_nodes": 8, "max_depth": 3, "p_await": 0.9, "p_stuck": 0.0, "p_fail": 0.0, "p_opt": 0.1}

    def nontrivial(self, case, impl):
        return any(a.get("inject") for s in case["prog"] for ph in ("prepare", "start") for a in (s[ph] or []))


class C19(Composite):
    id = "C19"
    quick_cases = C19Kernel.quick_cases
    thorough_cases = C19Kernel.thorough_cases
    parts = [(8, C19Kernel()), (1, C19Startup())]
    rule = C19Kernel.rule + ("; one case in nine is a component tree start-up in which a third of the resource requests are "
                             "made by calling an injected coroutine function")
    assumptions = C19Kernel.assumptions


PROP = C19()
