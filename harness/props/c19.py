"""C19 — @inject is equivalent to explicit lookups in the current context."""
import random

from ..gen_kernel import KGen
from ..kernel_prop import KernelProp


class InjGen(KGen):
    def task(self) -> int:
        # injected calls are mostly made from tasks that have a current context
        with_ctx = [t for t, c in self.cur.items() if c is not None]
        if with_ctx and self.rng.random() < 0.85:
            return self.rng.choice(with_ctx)
        return super().task()


class C19(KernelProp):
    id = "C19"
    tags = ("C19",)
    quick_cases = 700
    thorough_cases = 30000
    n_ops = (10, 40)
    weights = {"new": 10, "enter": 14, "exit": 4, "add": 18, "addf": 12, "getnw": 4, "get": 3, "finish": 1,
               "getall": 1, "addtd": 0, "current": 1, "parent": 0, "spawn": 3, "state": 0, "inject": 30, "decorate": 8}
    gen_kwargs = {"max_ctx": 6, "malformed": 0.02, "wrong_state": 0.03, "gated": 0.1, "exc_end": 0.2}
    rule = ("functions generated as source text and exec'd: positional, keyword-only and defaulted ordinary parameters, "
            "1-4 injected parameters (positional-or-keyword and keyword-only), annotations T, 'T' (forward reference), "
            "Optional[T], T | None, 'T | None', Union[T, None], Union of two types; sync and async functions; resources "
            "static / factory-made (sync, async) / inherited / missing; calls from nested contexts and spawned tasks; "
            "decoration-time misuse (positional-only, unannotated, uncalled marker). Non-trivial: an injected call whose "
            "body ran with >=2 injected parameters, or that triggered a factory, or that failed on a missing resource")
    assumptions = ["annotation resolution (get_type_hints, forward references, PEP 604) is Python's; the model receives the "
                   "resolved (type, name, optional) triples"]

    def make_gen(self, rng: random.Random, tier: str) -> KGen:
        return InjGen(rng, self.weights, **self.gen_kwargs)

    def nontrivial(self, case, impl):
        for op, r in zip(case["ops"], impl):
            if op["op"] == "inject":
                if r["res"][-1:] == ["called"] and (len(op["deps"]) >= 2 or r["ev"]):
                    return True
                if r["res"] == ["notFound"]:
                    return True
        return False


PROP = C19()
