"""C05 — component trees start in order: construct all, prepare, children, then start."""
from ..startup_prop import StartupProp


class C05(StartupProp):
    id = "C05"
    tags = ("C05",)
    quick_cases = 300
    thorough_cases = 20000
    gen_kwargs = {"max_nodes": 10, "max_depth": 4, "p_await": 0.35, "p_stuck": 0.05, "p_burst": 0.25}
    rule = ("component trees of depth <=4 / fan-out <=4 / <=10 nodes (thorough: depth 5, 20 nodes), each component with or "
            "without prepare()/start(), scripts of <=5 actions (publish resource / factory, await sibling-uncle-parent "
            "resources, optional lookups, sleeps of 0/1/2/3/5 virtual ticks, teardown callbacks), awaits wired to "
            "publishers anywhere in the tree and repaired until a completing schedule exists (5% left cyclic: must time "
            "out), both back-ends. Non-trivial: depth >=3 or a component waiting for another component's resource")
    assumptions = ["virtual time: every event's time must equal the independent reference run of the documented discipline",
                   "atomicity between checkpoints; anyio task groups and cancel scopes"]

    def nontrivial(self, case, impl):
        depth = max(s["path"].count(".") + (1 if s["path"] else 0) for s in case["prog"])
        return depth >= 3 or any(e["l"][0] == "req" for e in impl["trace"])


PROP = C05()
