"""C17 — merge_config is a pure, right-biased deep merge (mode E: output equality)."""

from __future__ import annotations

import collections
import copy
import random
from typing import Any, Iterator

from ..canon import from_cfg, to_cfg
from ..core import Prop
from ..gen_cfg import all_small_dicts, depth_of, gen_dict, gen_overlapping


def spec_merge(a: Any, b: Any) -> dict[str, Any]:
    """The property statement, literally (used as the monitor's oracle)."""
    a = a or {}
    b = b or {}
    out = {}
    for k in list(a) + [k for k in b if k not in a]:
        if k in a and k in b and isinstance(a[k], dict) and isinstance(b[k], dict):
            out[k] = spec_merge(a[k], b[k])
        elif k in b:
            out[k] = b[k]
        else:
            out[k] = a[k]
    return out


class C17(Prop):
    id = "C17"
    quick_cases = 2000
    thorough_cases = 100000
    rule = ("pairs of nested dicts (depth<=5, dotted keys, None/list/bool/empty-dict values, None arguments) "
            "generated from the seed, the override built to collide with the original, 30% of the eligible ones with one "
            "mapping object referenced from several places (as YAML aliases load); thorough adds all pairs of "
            "dicts with <=3 nodes over 2 keys; non-trivial = both arguments non-empty and at least one key collision")
    assumptions = ["dict iteration order and isinstance(…, dict) are CPython's; atoms are opaque in the model"]

    def generate(self, rng: random.Random, tier: str, index: int) -> dict[str, Any]:
        depth = rng.randint(0, 5)
        a: Any = gen_dict(rng, depth)
        b: Any = gen_overlapping(rng, a, depth) if rng.random() < 0.8 else gen_dict(rng, depth)
        share = False
        dict_keys = [k for k, v in a.items() if isinstance(v, dict)]
        if len(dict_keys) >= 2 and rng.random() < 0.3:
            # one mapping referenced from several places of the overrides (what a YAML alias loads as), each colliding
            # with a different mapping of the original
            shared = gen_dict(rng, max(0, depth - 1)) or {"lvl": 1}
            for k in rng.sample(dict_keys, rng.randint(2, len(dict_keys))):
                b[k] = copy.deepcopy(shared)
            share = True
        r = rng.random()
        if r < 0.04:
            a = None
        elif r < 0.08:
            b = None
        elif r < 0.1:
            a = b = None
        if a is not None and b is not None and index % 10 == 3:
            b = copy.deepcopy(a)                # a configuration merged into itself (C17_idempotent)
        elif a is not None and b is not None and index % 10 == 6:
            a = spec_merge(a, b)                # the same overrides applied a second time (C17_absorb)
        case = {"kind": "merge", "a": None if a is None else to_cfg(a), "b": None if b is None else to_cfg(b)}
        if index % 10 in (3, 6) and a is not None and b is not None:
            case["law"] = "idempotent" if index % 10 == 3 else "absorb"
        if index % 7 in (0, 1):
            case["sub"] = ("overrides", "original")[index % 7]
        if share and a is not None and b is not None:
            case["share"] = True
        if a is not None and b is not None and rng.random() < 0.15:
            case["threads"] = True      # also called from two threads whose calls overlap (a pure function does not care)
        return case

    def exhaustive(self, tier: str):
        if tier != "thorough":
            # nothing merged with nothing, at the top and inside
            es: list[Any] = [None, {}, {"a": {}}, {"a": {}, "b": 1}, {"a": {"b": {}}}]
            return [{"kind": "merge", "a": None if x is None else to_cfg(x), "b": None if y is None else to_cfg(y),
                     "origin": "empties"} for x in es for y in es]
        ds = all_small_dicts(["a", "b"], 3)
        return [{"kind": "merge", "a": to_cfg(x), "b": to_cfg(y), "origin": "exhaustive<=3nodes"} for x in ds for y in ds]

    def run_impl(self, case: dict[str, Any]) -> Any:
        from asphalt.core import merge_config

        a = None if case["a"] is None else from_cfg(case["a"])
        b = None if case["b"] is None else from_cfg(case["b"])
        if case.get("share"):
            a, b = _alias(a), _alias(b)     # equal mappings inside one argument become one object
        if case.get("sub") == "overrides":
            b = _subclassed(b)              # mappings of a dict subclass (what some loaders return), on one side only
        elif case.get("sub") == "original":
            a = _subclassed(a)
        a0, b0 = copy.deepcopy(a), copy.deepcopy(b)
        try:
            res = merge_config(a, b)
        except Exception as e:  # noqa: BLE001 - every input generated here (mappings, None) has a merge
            return {"raised": repr(e), "out": {"o": "raised " + type(e).__name__}, "overlap": None, "is_dict": False,
                    "args_unchanged": a == a0 and b == b0, "fresh": True, "expected": to_cfg(spec_merge(a0, b0))}
        overlap = _overlapping_calls(merge_config, a, b) if case.get("threads") else None
        out = to_cfg(res)
        is_dict = type(res) is dict
        # the result is the caller's: whatever the caller does to the dicts the merge made (the result and the merged
        # mappings inside it - not the mappings it took over from one side) is nobody else's business, in particular not
        # that of a later call on equal arguments
        again_ok = True
        args_unchanged = a == a0 and b == b0 and _same_types(a, a0) and _same_types(b, b0)
        fresh = res is not a and res is not b
        if is_dict and fresh:
            _scribble(res, a, b, _dict_ids(a) | _dict_ids(b))
            try:
                again_ok = to_cfg(merge_config(copy.deepcopy(a0), copy.deepcopy(b0))) == to_cfg(spec_merge(a0, b0))
            except Exception:  # noqa: BLE001
                again_ok = False
        return {
            "again_ok": again_ok,
            "overlap": None if overlap is None else [to_cfg(r) if isinstance(r, dict) else {"o": repr(r)} for r in overlap],
            "out": out,
            "is_dict": is_dict,
            "args_unchanged": args_unchanged,
            "fresh": fresh,
            "expected": to_cfg(spec_merge(a0, b0)),
        }

    def model_request(self, case, impl):
        return {"kind": "merge", "a": case["a"], "b": case["b"]}

    def compare(self, case, impl, model):
        if model["out"] != impl["out"]:
            return f"model {model['out']} != implementation {impl['out']}"
        return None

    def monitor(self, case, impl):
        fails = []
        if impl.get("raised"):
            return [f"merge_config raised {impl['raised']} on two arguments that are mappings or None"]
        if impl["out"] != impl["expected"]:
            fails.append("result differs from the documented right-biased deep merge")
        if not impl["args_unchanged"]:
            fails.append("merge_config modified one of its arguments")
        if not impl["fresh"] or not impl["is_dict"]:
            fails.append("merge_config did not return a new dict")
        if case.get("law") == "idempotent" and impl["out"] != case["a"]:
            fails.append("a configuration merged into itself is not itself")
        if case.get("law") == "absorb" and impl["out"] != case["a"]:
            fails.append("applying the same overrides a second time changed the result")
        if impl.get("again_ok") is False:
            fails.append("after the caller had modified the dict it was given, a second call on equal arguments did not return "
                         "the documented merge: results of different calls share state")
        if impl.get("overlap") and any(r != impl["expected"] for r in impl["overlap"]):
            fails.append("two calls on the same arguments, one made (by another thread) while the other was inside its "
                         "nested merge, do not both return the documented merge: the function keeps state between calls")
        return fails

    def nontrivial(self, case, impl):
        if case["a"] is None or case["b"] is None:
            return False
        ka = {k for k, _ in case["a"]["d"]}
        kb = {k for k, _ in case["b"]["d"]}
        return bool(ka & kb)

    def features(self, case, impl):
        f = []
        if case["a"] is None or case["b"] is None:
            f.append("none_argument")
            return f
        a, b = dict(case["a"]["d"]), dict(case["b"]["d"])
        for k in a.keys() & b.keys():
            da, db = "d" in a[k], "d" in b[k]
            f.append("collision_dict_dict" if da and db else "collision_dict_scalar" if da else
                     "collision_scalar_dict" if db else "collision_scalar_scalar")
        f.append(f"depth_{max(depth_of(from_cfg(case['a'])), depth_of(from_cfg(case['b'])))}")
        if case.get("law"):
            f.append("law_" + case["law"])
        if any("." in k for k in list(a) + list(b)):
            f.append("dotted_key")
        if case.get("share"):
            f.append("aliased_mapping")
        return f

    def shrink(self, case) -> Iterator[dict[str, Any]]:
        for side in ("a", "b"):
            c = case[side]
            if c is None:
                continue
            # (a smaller side is no longer an instance of the law the case was generated for)
            yield from ({**{k: v for k, v in case.items() if k != "law"}, side: s} for s in _shrink_cfg(c))


def _dict_ids(x: Any) -> set[int]:
    return set() if not isinstance(x, dict) else {id(x)}.union(*(_dict_ids(v) for v in x.values()))


def _scribble(res: dict[str, Any], a: Any, b: Any, theirs: set[int]) -> None:
    """Add a key to every dict the merge made: the result, and below it every mapping at a key where both sides had a
    mapping (what sits at any other key may be an argument's own mapping, which the caller has no business changing -
    and so may be, for all the property says, a mapping at such a key, if the function handed one of the two on)."""
    if id(res) in theirs:
        return
    res["__scribbled__"] = True
    for k, v in list(res.items()):
        if isinstance(v, dict) and isinstance((a or {}).get(k), dict) and isinstance((b or {}).get(k), dict):
            _scribble(v, a[k], b[k], theirs)


def _overlapping_calls(merge_config: Any, a: Any, b: Any) -> list[Any] | None:
    """Call merge_config(a, b) in a second thread and hold that call at the entry of its first nested call (into any
    function of the module merge_config lives in); make a complete call on the same arguments meanwhile; release.
    Returns both results, or None if there was no nested call to stop at."""
    import sys
    import threading

    fn = getattr(merge_config, "__wrapped__", merge_config)
    module_file = fn.__code__.co_filename
    at_nested, go_on = threading.Event(), threading.Event()
    depth = [0]
    res_a: list[Any] = []

    def tracer(frame: Any, event: str, arg: Any) -> Any:
        if event == "call" and frame.f_code.co_filename == module_file:
            depth[0] += 1
            if depth[0] == 2 and not at_nested.is_set():
                at_nested.set()
                go_on.wait(5)
        return None

    def run_a() -> None:
        sys.settrace(tracer)
        try:
            res_a.append(merge_config(a, b))
        except BaseException as e:  # noqa: BLE001
            res_a.append(e)
        finally:
            sys.settrace(None)

    t = threading.Thread(target=run_a)
    t.start()
    res_b: Any = None
    while t.is_alive() and not at_nested.is_set():
        at_nested.wait(0.0005)          # (a call without a nested call just finishes)
    stopped = at_nested.is_set()
    if stopped:
        try:
            res_b = merge_config(a, b)
        except BaseException as e:  # noqa: BLE001
            res_b = e
    go_on.set()
    t.join(10)
    return [res_a[0] if res_a else RuntimeError("the first call did not finish"), res_b] if stopped else None


def _alias(x: Any, seen: list[Any] | None = None) -> Any:
    """The same value with equal (non-empty) dict subtrees replaced by one shared object."""
    seen = [] if seen is None else seen
    if not isinstance(x, dict):
        return x
    for k, v in list(x.items()):
        if isinstance(v, dict) and v:
            first = next((o for o in seen if o == v and _same_types(o, v)), None)
            if first is not None:
                x[k] = first
            else:
                seen.append(v)
                _alias(v, seen)
    return x


def _subclassed(x: Any, depth: int = 0) -> Any:
    """The same value with every mapping an instance of a dict subclass (OrderedDict / a subclass of our own)."""
    if not isinstance(x, dict):
        return x
    cls = collections.OrderedDict if depth % 2 == 0 else _MyDict
    return cls((k, _subclassed(v, depth + 1)) for k, v in x.items())


class _MyDict(dict):  # type: ignore[type-arg]
    pass


def _same_types(x: Any, y: Any) -> bool:
    if isinstance(x, dict):
        return isinstance(y, dict) and list(x) == list(y) and all(_same_types(x[k], y[k]) for k in x)
    return type(x) is type(y)


def _shrink_cfg(c: dict[str, Any]) -> Iterator[dict[str, Any]]:
    if "d" not in c:
        return
    items = c["d"]
    for i in range(len(items)):
        yield {"d": items[:i] + items[i + 1:]}
    for i, (k, v) in enumerate(items):
        for s in _shrink_cfg(v):
            yield {"d": items[:i] + [[k, s]] + items[i + 1:]}
        if "d" in v:
            yield {"d": items[:i] + [[k, {"o": "1"}]] + items[i + 1:]}


PROP = C17()
