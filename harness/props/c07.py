"""C07 — a failing or stalling component aborts startup cleanly with a precise error."""
from ..startup_prop import StartupProp


class C07(StartupProp):
    id = "C07"
    tags = ("C07",)
    quick_cases = 400
    thorough_cases = 15000
    gen_kwargs = {"max_nodes": 9, "max_depth": 4, "p_await": 0.3, "p_fail": 0.7, "p_timeout": 0.3, "p_stuck": 0.1, "p_failfac": 0.12}
    rule = ("generated trees with one failing component: every choice of component x phase (constructor / prepare / "
            "start) x position in its script, failure instant swept against the siblings' progress through tick delays; "
            "time-outs at k+0.5 ticks for k in 0..14 (never tying with an event) and none; cyclic programs. "
            "Non-trivial: the failing component is not the root and a sibling was running when it failed, or a "
            "time-out struck while components were running")
    assumptions = ["exactly one component fails, with an Exception (the statement's own hypothesis)",
                   "that cancellation actually stops a sibling's Python code is anyio's doing"]

    def nontrivial(self, case, impl):
        o = impl["outcome"]
        cancelled = any(e["l"][0] == "cancelSeen" for e in impl["trace"])
        return cancelled and (o["k"] == "timeout" or (o["k"] == "cse" and o.get("i", 0) != 0))


PROP = C07()
