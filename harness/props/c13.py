"""C13 — context lifecycle: usable only from entry to the end of teardown, entered once."""
import itertools
from typing import Any

import random

from ..core import Composite, Prop
from ..kernel_prop import KernelProp
from .c08 import C08

PROBE_CB = {"id": 900, "pass": False, "async": False, "body": [], "regs": [], "raises": None}


def probes(c: int, t: int = 0) -> list[dict[str, Any]]:
    """Every operation of the matrix, applied to context c."""
    return [
        {"op": "add", "t": t, "c": c, "types": [1], "vt": 1, "name": "probe", "val": 990 + c, "desc": None,
         "badType": False, "single": False, "td": None, "tdBad": False, "via": "method"},
        {"op": "addf", "t": t, "c": c, "types": [2], "name": "probe", "fid": 900 + c, "desc": None, "async": False,
         "gated": False, "failFirst": 0, "noneIn": False, "annot": False, "single": False, "via": "method"},
        {"op": "getnw", "t": t, "c": c, "ty": 0, "name": "default", "opt": False, "via": "method"},
        {"op": "get", "t": t, "c": c, "ty": 0, "name": "default", "opt": True, "via": "method"},
        {"op": "addtd", "t": t, "c": c, "cb": dict(PROBE_CB, id=900 + c), "callable": True, "via": "method"},
        {"op": "enter", "t": t, "c": c},
        {"op": "state", "t": t, "c": c},
        {"op": "getall", "t": t, "c": c, "ty": 0, "via": "method"},
        # names no resource can have are still names: what decides is the state
        {"op": "getnw", "t": t, "c": c, "ty": 0, "name": "db/main", "opt": True, "via": "method"},
        {"op": "get", "t": t, "c": c, "ty": 0, "name": " a.b", "opt": False, "via": "method"},
        {"op": "getnw", "t": t, "c": c, "ty": 0, "name": "", "opt": False, "via": "method"},
    ]


class C13Kernel(KernelProp):
    kinds = ("ctx",)
    id = "C13"
    tags = ("C13",)
    quick_cases = 400
    thorough_cases = 20000
    n_ops = (8, 30)
    weights = {"new": 10, "enter": 14, "exit": 10, "add": 12, "addf": 8, "getnw": 10, "get": 8, "finish": 1,
               "getall": 4, "addtd": 10, "current": 1, "parent": 0, "spawn": 2, "state": 12}
    gen_kwargs = {"max_ctx": 6, "malformed": 0.02, "wrong_state": 0.45, "exc_end": 0.5, "td_depth": 1, "p_cancel": 0.1, "p_manual": 0.05, "p_mid": 0.15, "p_defer": 0.3, "p_comp": 0.2, "body_get": True}
    rule = ("the full state x operation matrix (never entered / open / inside a teardown callback / closed after clean, "
            "raising-block, cancelled-block, raising-teardown exits) x (add_resource, add_resource_factory, get_resource, "
            "get_resource_nowait, add_teardown_callback, re-entry, closed flag) on both back-ends (exhaustive, both "
            "tiers), leaving a parent with an open child (from another task), plus random op orders with 45% of "
            "operations aimed at contexts in the wrong state. Non-trivial: an operation applied outside the open state")
    assumptions = ["the roll-back to inactive after a failing __aenter__ has no reachable trigger from the public API "
                   "on these back-ends: modelled, not exercised"]

    def exhaustive(self, tier: str):
        cases = []
        ends = [{"k": "ret"}, {"k": "exn", "n": 0}, {"k": "base", "n": 0}, {"k": "cancelled"}]
        for backend in ("asyncio", "trio"):
            # never entered
            cases.append({"kind": "ctx", "backend": backend, "origin": "matrix:inactive",
                          "ops": [{"op": "new", "t": 0, "c": 1, "parent": None}] + [p for p in probes(1) if p["op"] != "enter"]
                                 + [{"op": "enter", "t": 0, "c": 1}, {"op": "exit", "t": 0, "c": 1, "end": {"k": "ret"}}]})
            # open: re-entry and everything else
            cases.append({"kind": "ctx", "backend": backend, "origin": "matrix:open",
                          "ops": [{"op": "new", "t": 0, "c": 1, "parent": None}, {"op": "enter", "t": 0, "c": 1}]
                                 + probes(1) + [{"op": "exit", "t": 0, "c": 1, "end": {"k": "ret"}}]})
            # closed after each kind of exit, with and without a raising teardown callback
            for end, raising in itertools.product(ends, (False, True)):
                cb = dict(PROBE_CB, id=1, raises={"k": "exn", "n": 1} if raising else None)
                cases.append({"kind": "ctx", "backend": backend, "origin": f"matrix:closed:{end['k']}:{raising}",
                              "ops": [{"op": "new", "t": 0, "c": 1, "parent": None}, {"op": "enter", "t": 0, "c": 1},
                                      {"op": "addtd", "t": 0, "c": 1, "cb": cb, "callable": True, "via": "method"},
                                      {"op": "exit", "t": 0, "c": 1, "end": end}] + probes(1)})
            # inside a teardown callback (closing): body operations
            body = [{"op": "add", "types": [1], "name": "b", "v": 5}, {"op": "addf", "types": [2], "name": "b", "fid": 7},
                    {"op": "getnw", "ty": 1, "name": "b", "opt": False}, {"op": "getnw", "ty": 3, "name": "zz", "opt": True},
                    {"op": "current"}]
            inner = dict(PROBE_CB, id=3)
            cb = dict(PROBE_CB, id=2, body=body, regs=[inner])
            for is_async in (False, True):
                cases.append({"kind": "ctx", "backend": backend, "origin": f"matrix:closing:{is_async}",
                              "ops": [{"op": "new", "t": 0, "c": 1, "parent": None}, {"op": "enter", "t": 0, "c": 1},
                                      {"op": "addtd", "t": 0, "c": 1, "cb": dict(cb, **{"async": is_async}), "callable": True, "via": "method"},
                                      {"op": "exit", "t": 0, "c": 1, "end": {"k": "ret"}}, {"op": "state", "t": 0, "c": 1},
                                      {"op": "getall", "t": 0, "c": 1, "ty": 1, "via": "method"}]})
            # … and the lookups an asynchronous callback awaits: something an asynchronous factory has yet to make,
            # something it made inside the block, a synchronous factory's product, nothing at all
            for made_before, how in itertools.product((False, True), ("direct", "with_resource")):
                fac = {"op": "addf", "t": 0, "c": 1, "name": "w", "desc": None, "gated": False, "failFirst": 0,
                       "noneIn": False, "annot": False, "single": True, "via": "method"}
                body = [{"op": "get", "ty": 0, "name": "w", "opt": False}, {"op": "get", "ty": 1, "name": "w", "opt": False},
                        {"op": "get", "ty": 3, "name": "zz", "opt": True}, {"op": "get", "ty": 3, "name": "zz", "opt": False},
                        {"op": "getnw", "ty": 0, "name": "w", "opt": False}]
                cb = dict(PROBE_CB, id=2, body=body, **{"async": True})
                reg = ({"op": "addtd", "t": 0, "c": 1, "cb": cb, "callable": True, "via": "method"} if how == "direct" else
                       {"op": "add", "t": 0, "c": 1, "types": [2], "vt": 2, "name": "holder", "val": 77, "desc": None,
                        "badType": False, "badPos": False, "single": True, "td": cb, "tdBad": False, "via": "method"})
                cases.append({"kind": "ctx", "backend": backend, "origin": f"matrix:closing-await:{made_before}:{how}",
                              "ops": [{"op": "new", "t": 0, "c": 1, "parent": None}, {"op": "enter", "t": 0, "c": 1},
                                      {**fac, "types": [0], "fid": 11, "async": True}, {**fac, "types": [1], "fid": 12, "async": False}]
                                     + ([{"op": "get", "t": 0, "c": 1, "ty": 0, "name": "w", "opt": False, "via": "method"}]
                                        if made_before else [])
                                     + [reg, {"op": "exit", "t": 0, "c": 1, "end": {"k": "ret"}}, {"op": "state", "t": 0, "c": 1}]})
            # parent left while a child entered from it (by another task) is still open
            for end in ends[:2]:
                cases.append({"kind": "ctx", "backend": backend, "origin": f"matrix:open-child:{end['k']}",
                              "ops": [{"op": "new", "t": 0, "c": 1, "parent": None}, {"op": "enter", "t": 0, "c": 1},
                                      {"op": "new", "t": 0, "c": 2, "parent": None}, {"op": "enter", "t": 0, "c": 2},
                                      {"op": "spawn", "t": 0, "t2": 1}, {"op": "new", "t": 1, "c": 3, "parent": 2},
                                      {"op": "enter", "t": 1, "c": 3}, {"op": "exit", "t": 0, "c": 2, "end": end},
                                      {"op": "state", "t": 0, "c": 2}] + probes(2)      # left, although with an error
                                     + [{"op": "exit", "t": 1, "c": 3, "end": {"k": "ret"}},
                                        {"op": "exit", "t": 0, "c": 1, "end": {"k": "ret"}}]})
            # … several children of one parent, entered by different tasks, coming and going in every order: what counts
            # when the parent is left is whether any of them is still open, not what the last one to move did
            for order, keep in itertools.product(("ab", "ba"), ("a", "b", "none")):
                a_in = {"op": "enter", "t": 1, "c": 3}
                b_in = {"op": "enter", "t": 2, "c": 4}
                a_out = {"op": "exit", "t": 1, "c": 3, "end": {"k": "ret"}}
                b_out = {"op": "exit", "t": 2, "c": 4, "end": {"k": "ret"}}
                first = [a_in, b_in] if order == "ab" else [b_in, a_in]
                before = {"a": [b_out], "b": [a_out], "none": [a_out, b_out] if order == "ab" else [b_out, a_out]}[keep]
                after = {"a": [a_out], "b": [b_out], "none": []}[keep]
                cases.append({"kind": "ctx", "backend": backend, "origin": f"matrix:open-sibling:{order}:{keep}",
                              "ops": [{"op": "new", "t": 0, "c": 1, "parent": None}, {"op": "enter", "t": 0, "c": 1},
                                      {"op": "new", "t": 0, "c": 2, "parent": None}, {"op": "enter", "t": 0, "c": 2},
                                      {"op": "spawn", "t": 0, "t2": 1}, {"op": "spawn", "t": 0, "t2": 2},
                                      {"op": "new", "t": 1, "c": 3, "parent": 2}, {"op": "new", "t": 2, "c": 4, "parent": 2}]
                                     + first + before
                                     + [{"op": "exit", "t": 0, "c": 2, "end": {"k": "ret"}}, {"op": "state", "t": 0, "c": 2}]
                                     + after + [{"op": "exit", "t": 0, "c": 1, "end": {"k": "ret"}}]})
            # … also when the child was entered by a task that has ended and nobody else refers to the child
            for end in ends[:2]:
                cases.append({"kind": "ctx", "backend": backend, "origin": f"matrix:leaked-child:{end['k']}",
                              "ops": [{"op": "new", "t": 0, "c": 1, "parent": None}, {"op": "enter", "t": 0, "c": 1},
                                      {"op": "new", "t": 0, "c": 2, "parent": None}, {"op": "enter", "t": 0, "c": 2},
                                      {"op": "leak", "t": 0, "c": 3, "parent": 2},
                                      {"op": "exit", "t": 0, "c": 2, "end": end}, {"op": "state", "t": 0, "c": 2},
                                      {"op": "exit", "t": 0, "c": 1, "end": {"k": "ret"}}]})
        return cases

    def nontrivial(self, case, impl):
        return any(s.startswith("runtimeError") or s == "corruption" for r in impl for s in r["res"])


class C13Tasks(C08):
    """While a root context is still inside its own exit - its callbacks have run, cut short by a cancellation,
    and it is waiting for service tasks that are still cleaning up - it is being torn down, not closed: a
    lookup made by such a task must not be refused."""
    id = "C13"
    crash = 0.45

    def monitor(self, case, impl):
        return [f"[C13] task {e['l'][1]}: {e['l'][2]}" for e in impl["trace"] if e["l"][0] == "probeFailed"
                and (len(e["l"]) <= 3 or "C13" in e["l"][3])]

    def nontrivial(self, case, impl):
        labels = [e["l"] for e in impl["trace"]]
        return any(l[0] == "taskEnded" and l[2] is not None for l in labels) and any(l[0] == "cleanupTick" for l in labels)


class C13LeakInTeardown(Prop):
    """A context that is left while a child context is still open is an error whenever the child was entered - also
    during the parent's teardown (a teardown callback that opens a sub-context for its clean-up work and does not leave
    it). Observed directly: in the kernel model callback bodies act on their own context only."""
    id = "C13"
    kinds = ("leak",)

    def generate(self, rng: random.Random, tier: str, index: int) -> dict[str, Any]:
        return {"kind": "leak", "backend": ("asyncio", "trio")[index % 2], "nested": rng.random() < 0.5,
                "where": rng.choice(["body", "callback", "callback", "async_callback", "second_callback"]),
                "leaks": rng.choice([1, 1, 2]), "block_fails": rng.random() < 0.3}

    def exhaustive(self, tier: str):
        return [{"kind": "leak", "backend": b, "nested": n, "where": w, "leaks": k, "block_fails": f, "origin": "leak"}
                for b in ("asyncio", "trio") for n in (False, True)
                for w in ("body", "callback", "async_callback", "second_callback") for k in (1, 2) for f in (False, True)]

    def run_impl(self, case):
        from asphalt.core import Context

        from ..impl import vclock
        from ..impl.kernel import EXN, leaves

        async def main() -> dict[str, Any]:
            kept: list[Any] = []
            ran: list[str] = []

            async def leak() -> None:
                for _ in range(case["leaks"]):
                    child = Context()
                    await child.__aenter__()      # … and never left
                    kept.append(child)

            async def acb() -> None:
                ran.append("acb")
                await leak()

            def first() -> None:
                ran.append("first")

            async def scenario() -> None:
                async with Context() as parent:
                    parent.add_teardown_callback(first)
                    if case["where"] == "second_callback":
                        parent.add_teardown_callback(lambda: None)
                    if case["where"] in ("callback", "async_callback", "second_callback"):
                        parent.add_teardown_callback(acb)
                    if case["where"] == "body":
                        await leak()
                    if case["block_fails"]:
                        raise EXN[0]()

            out: list[str] = []
            try:
                if case["nested"]:
                    async with Context():
                        try:
                            await scenario()
                        except BaseException as e:  # noqa: BLE001
                            out = [type(x).__name__ + ":" + str(x)[:40] for x in leaves(e)]
                        for child in kept:      # (tidy up so that the outer context can be left)
                            try:
                                await child.__aexit__(None, None, None)
                            except BaseException:  # noqa: BLE001
                                pass
                else:
                    await scenario()
            except BaseException as e:  # noqa: BLE001
                out = out or [type(x).__name__ + ":" + str(x)[:40] for x in leaves(e)]
            return {"raised": out, "ran": ran}

        return vclock.run(main, backend=case["backend"])

    def model_request(self, case, impl):
        return None

    def compare(self, case, impl, model):
        return None

    def monitor(self, case, impl):
        if case["block_fails"] and not case["nested"]:
            # a root context whose block ends with an exception re-raises it from its task group before the check is
            # reached (the carve-out of C13_children_reported: `be = .ret ∨ x.parent ≠ none`): not judged
            return []
        if not any(r.startswith("RuntimeError:Context stack corruption") for r in impl["raised"]):
            return [f"[C13] a context was left while {case['leaks']} child context(s) entered "
                    f"{'in its block' if case['where'] == 'body' else 'by one of its teardown callbacks'} were still open and "
                    f"nothing was reported: the caller saw {impl['raised']}"]
        return []

    def nontrivial(self, case, impl):
        return case["where"] != "body"

    def features(self, case, impl):
        return ["leak:" + case["where"], "backend_" + case["backend"]]

    def shrink(self, case):
        if case["leaks"] > 1:
            yield {**case, "leaks": 1}
        if case["block_fails"]:
            yield {**case, "block_fails": False}


class C13KeptContext(Prop):
    """A component keeps the context it was started in (`current_context()` inside `start()`: its own, a stand-in for the
    real one) and a context is later created with that object as its parent: it is a child of the *real* context like any
    other - left open when the real context is left, it is reported. Observed directly (the kernel model has no
    components' contexts)."""
    id = "C13"
    kinds = ("keptctx",)

    def generate(self, rng: random.Random, tier: str, index: int) -> dict[str, Any]:
        return {"kind": "keptctx", "backend": ("asyncio", "trio")[index % 2], "via": rng.choice(["component", "component", "real"]),
                "left": rng.random() < 0.4, "nested": rng.random() < 0.5, "when": rng.choice(["after", "in_start"])}

    def exhaustive(self, tier: str):
        return [{"kind": "keptctx", "backend": b, "via": v, "left": l, "nested": n, "when": w, "origin": "keptctx"}
                for b in ("asyncio", "trio") for v in ("component", "real") for l in (False, True) for n in (False, True)
                for w in ("after", "in_start")]

    def run_impl(self, case):
        import anyio

        from asphalt.core import Component, Context, current_context, start_component

        from ..impl import vclock

        async def main() -> dict[str, Any]:
            kept: list[Any] = []
            made: list[Any] = []
            res: dict[str, Any] = {"raised": None, "parent_ok": None, "usable_after": None}

            async def open_child(real: Any) -> None:
                child = Context(kept[0] if case["via"] == "component" else real)
                made.append(child)
                res["parent_ok"] = child.parent is real
                await child.__aenter__()
                if case["left"]:
                    await child.__aexit__(None, None, None)

            class Comp(Component):
                async def start(self) -> None:
                    kept.append(current_context())
                    if case["when"] == "in_start":
                        await open_child(app)

            async def body() -> None:
                nonlocal app
                async with Context() as app:
                    await start_component(Comp, timeout=None)
                    if case["when"] == "after":
                        await open_child(app)

            app: Any = None
            try:
                if case["nested"]:
                    async with Context():
                        try:
                            await body()
                        except RuntimeError as e:
                            res["raised"] = "RuntimeError"
                            del e
                else:
                    await body()
            except RuntimeError:
                res["raised"] = "RuntimeError"
            except BaseException as e:  # noqa: BLE001
                res["raised"] = type(e).__name__
            if made and not case["left"]:
                try:
                    made[0].add_resource(object(), "late")
                    res["usable_after"] = True
                except RuntimeError:
                    res["usable_after"] = False
            return res

        return vclock.run(main, backend=case["backend"])

    def model_request(self, case, impl):
        return None

    def compare(self, case, impl, model):
        return None

    def monitor(self, case, impl):
        fails = []
        if impl["parent_ok"] is False:
            fails.append("a context created with a component's context as parent is not a child of the real context")
        want = None if case["left"] else "RuntimeError"
        if impl["raised"] != want:
            fails.append(f"leaving the context with a child {'left properly' if case['left'] else 'still open'} "
                         f"(parent given as the {case['via']} context) ended with {impl['raised']}, expected {want}")
        return ["[C13] " + f for f in fails]

    def nontrivial(self, case, impl):
        return case["via"] == "component" and not case["left"]

    def features(self, case, impl):
        return ["kept_component_context", "backend_" + case["backend"], "parent_via_" + case["via"]]


class C13(Composite):
    id = "C13"
    quick_cases = C13Kernel.quick_cases
    thorough_cases = C13Kernel.thorough_cases
    parts = [(14, C13Kernel()), (2, C13Tasks()), (1, C13LeakInTeardown()), (1, C13KeptContext())]
    rule = C13Kernel.rule + ("; two cases in seventeen are service-task programs (as in C08) with frequent task crashes: "
                             "tasks that are still cleaning up while the root context waits for them inside its exit look "
                             "resources up in it; one in seventeen leaves a root or nested context whose block or whose "
                             "teardown callbacks entered 1-2 child contexts and did not leave them; one in eighteen (and 32 enumerated cases) creates "
                             "a context whose parent is given as the context object a component kept from start(): it is a child of "
                             "the real context, reported when left open")
    assumptions = C13Kernel.assumptions


PROP = C13()
