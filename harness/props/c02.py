"""C02 — resources are scoped to the context tree: snapshot down, nothing up or sideways."""
from ..core import Composite
from ..kernel_prop import KernelProp
from ..startup_prop import StartupProp


class C02Kernel(KernelProp):
    kinds = ("ctx",)
    id = "C02"
    tags = ("C02",)
    quick_cases = 800
    thorough_cases = 50000
    n_ops = (12, 45)
    weights = {"new": 14, "cancelget": 1, "enter": 12, "exit": 4, "add": 18, "addf": 10, "getnw": 14, "get": 8, "finish": 2,
               "getall": 14, "addtd": 1, "current": 1, "parent": 2, "spawn": 2, "state": 1, "inject": 3}
    gen_kwargs = {"max_ctx": 8, "malformed": 0.02, "wrong_state": 0.03, "exc_end": 0.2, "p_comp": 0.25}
    rule = ("context trees up to depth 6 / 8 contexts entered from up to 3 tasks, adds and factory registrations "
            "interleaved with child creation, 1-3 types per resource, all lookup APIs incl. shortcuts, get_resources and "
            "inject. Non-trivial: >=3 contexts, an add after a child of that context was created, and a lookup or "
            "get_resources on a different context than the add")
    assumptions = []

    def nontrivial(self, case, impl):
        ops = case["ops"]
        ctxs = [o for o in ops if o["op"] == "new"]
        if len(ctxs) < 3:
            return False
        created = {}
        for i, o in enumerate(ops):
            if o["op"] == "new":
                created[o["c"]] = i
        for i, (o, r) in enumerate(zip(ops, impl)):
            if o["op"] in ("add", "addf") and r["res"][:1] == ["ok"]:
                later_child = any(j < i for c, j in created.items() if c != o["c"] and j > created.get(o["c"], -1))
                other_lookup = any(p["op"] in ("getnw", "get", "getall") and p.get("c") != o["c"] for p in ops[i + 1:])
                if later_child and other_lookup:
                    return True
        return False


class C02Startup(StartupProp):
    """Inside components: the component's own context, and a context created there, see exactly what the context
    start_component() was called in holds at that moment (component contexts only hand things on)."""
    id = "C02"
    kinds = ("startup",)
    tags = ("C02",)
    gen_kwargs = {"max_nodes": 8, "max_depth": 3, "p_await": 0.3, "p_stuck": 0.0}

    def nontrivial(self, case, impl):
        return len(case["prog"]) >= 2 and any(e["l"][0] == "pub" for e in impl["trace"])


class C02(Composite):
    id = "C02"
    quick_cases = C02Kernel.quick_cases
    thorough_cases = C02Kernel.thorough_cases
    parts = [(8, C02Kernel()), (1, C02Startup())]
    rule = C02Kernel.rule + ("; one case in nine is a component tree start-up (as in C05) where every prepare()/start() "
                             "compares what its own context and a newly created context see with the surrounding context")
    assumptions = C02Kernel.assumptions


PROP = C02()
