"""C10 — events reach exactly the active subscribers, exactly once, in dispatch order (mode E).
Also hosts the shared generator / comparison used by C11."""

from __future__ import annotations

import random
from typing import Any, Iterator

from ..core import Composite, Prop

ATTRS = ["sa", "sb", "sc", "sd"]


def resolve_evcls(classes: list[dict[str, Any]], k: int, attr: str) -> int | None:
    while k is not None:
        if attr in classes[k]["signals"]:
            return classes[k]["signals"][attr]
        k = classes[k]["base"]
    return None


def attrs_of(classes: list[dict[str, Any]], k: int) -> list[str]:
    out: list[str] = []
    while k is not None:
        out += [a for a in classes[k]["signals"] if a not in out]
        k = classes[k]["base"]
    return out


def is_sub(parents: list[list[int]], k: int, base: int) -> bool:
    par = {c: p for c, p in parents}
    while True:
        if k == base:
            return True
        if k not in par:
            return False
        k = par[k]


def filter_pass(f: dict[str, Any], seq: int, cls: int, chan: int) -> bool:
    k = f["k"]
    if k == "all":
        return True
    if k == "seqMod":
        return seq % f["m"] == f["r"]
    if k == "clsIs":
        return cls == f["c"]
    if k == "clsNot":
        return cls != f["c"]
    if k == "chanIs":
        return chan == f["c"]
    return False


class SigGen:
    def __init__(self, rng: random.Random, *, many_attrs: bool = False, p_burst: float = 0.25, caps: list[int] | None = None) -> None:
        self.rng = rng
        self.many_attrs = many_attrs
        self.p_burst = p_burst
        self.caps = caps or [0, 1, 1, 2, 2, 3, 50]

    def build(self, n_ops: int) -> dict[str, Any]:
        rng = self.rng
        nev = rng.randint(2, 5)
        evparents = [[i, rng.randrange(i)] for i in range(1, nev) if rng.random() < 0.6]
        ncls = rng.randint(1, 3)
        classes = []
        for k in range(ncls):
            base = rng.randrange(k) if k and rng.random() < 0.6 else None
            nsig = rng.randint(2, 4) if self.many_attrs else rng.randint(1, 3)
            sigs = {a: rng.randrange(nev) for a in rng.sample(ATTRS, nsig)}
            if rng.random() < 0.35:
                # a private signal (`__changed = Signal(...)` in the class body): the attribute is name-mangled
                # per class, so a base class and a subclass each have their own
                sigs[f"_O{k}__changed"] = rng.randrange(nev)
            classes.append({"name": f"O{k}", "base": base, "signals": sigs, "falsy": rng.random() < 0.3})
        instances = [rng.randrange(ncls) for _ in range(rng.randint(1, 4))]
        copies = {}
        for i in range(1, len(instances)):
            if rng.random() < 0.25:
                j = rng.randrange(i)
                instances[i] = instances[j]
                copies[str(i)] = j
        # an instance that comes into being only after another one of its class has been dropped and collected
        self.reborn: dict[str, int] = {}
        self.dead: set[int] = set()
        if len(instances) >= 2 and rng.random() < 0.3:
            i = rng.randrange(1, len(instances))
            if str(i) not in copies and i not in copies.values():
                j = rng.choice([x for x in range(i) if str(x) not in copies] or [0])
                if str(j) not in copies and j not in [v for v in copies.values()]:
                    instances[i] = instances[j]
                    self.reborn[str(i)] = j
        self.classes, self.instances, self.evparents, self.nev = classes, instances, evparents, nev
        self.chan_of: dict[tuple[int, str], int] = {}
        self.chan_ev: list[int] = []
        self.streams: dict[int, dict[str, Any]] = {}
        self.n_dispatched = 0
        ops: list[dict[str, Any]] = []
        # make sure there is something to work with
        for _ in range(rng.randint(1, 3)):
            ops.append(self.op_access())
        tries = 0
        while len(ops) < n_ops and tries < n_ops * 8:
            tries += 1
            op = self.gen_op()
            if op is not None:
                ops.append(op)
        # drain every open stream, then leave
        for s, st in sorted(self.streams.items()):
            if st["open"] and not st["once"] and not st.get("finished"):
                ops += [{"op": "pull", "s": s} for _ in range(min(self.n_dispatched + 1, 70))]
        for s, st in sorted(self.streams.items()):
            if st["open"]:
                ops.append({"op": "leave", "s": s})
        return {"kind": "sig", "nevcls": nev, "evparents": evparents, "classes": classes, "instances": instances,
                "copies": copies, "reborn": self.reborn, "ops": ops}

    def op_access(self) -> dict[str, Any]:
        rng = self.rng
        inst = rng.choice([x for x in range(len(self.instances)) if x not in self.dead])
        if str(inst) in self.reborn:
            self.dead.add(self.reborn[str(inst)])       # its predecessor is gone from now on
        attr = rng.choice(attrs_of(self.classes, self.instances[inst]))
        ev = resolve_evcls(self.classes, self.instances[inst], attr)
        if (inst, attr) not in self.chan_of:
            self.chan_of[(inst, attr)] = len(self.chan_ev)
            self.chan_ev.append(ev)
        return {"op": "access", "inst": inst, "attr": attr, "evcls": ev}

    def gen_filter(self) -> dict[str, Any]:
        f = self.gen_filter_kind()
        if f["k"] != "all" and self.rng.random() < 0.3:
            f["obj"] = self.rng.choice(["truthy", "falsy"])     # the filter is a callable object
        return f

    def gen_filter_kind(self) -> dict[str, Any]:
        rng = self.rng
        r = rng.random()
        if r < 0.4:
            return {"k": "all"}
        if r < 0.6:
            m = rng.choice([2, 3])
            return {"k": "seqMod", "m": m, "r": rng.randrange(m)}
        if r < 0.75:
            return {"k": "clsIs", "c": rng.randrange(self.nev)}
        if r < 0.85:
            return {"k": "clsNot", "c": rng.randrange(self.nev)}
        if r < 0.95 and self.chan_ev:
            return {"k": "chanIs", "c": rng.randrange(len(self.chan_ev))}
        return {"k": "none"}

    def unbound_ref(self) -> dict[str, Any]:
        k = self.rng.randrange(len(self.classes))
        return {"ucls": k, "uattr": self.rng.choice(attrs_of(self.classes, k))}

    def gen_op(self) -> dict[str, Any] | None:
        rng = self.rng
        kind = rng.choices(["access", "subscribe", "wait", "dispatch", "pull", "leave", "accessClass", "finish"],
                           [10, 10, 4, 34, 26, 5, 1.5, 1.5])[0]
        open_streams = [s for s, st in self.streams.items() if st["open"]]
        if kind == "finish":
            cands = [s for s in open_streams if not self.streams[s]["once"] and not self.streams[s].get("finished")]
            if not cands:
                return None
            s = rng.choice(cands)
            self.streams[s]["finished"] = True
            return {"op": "finish", "s": s}
        if kind == "access":
            return self.op_access()
        if kind == "accessClass":
            k = rng.randrange(len(self.classes))
            return {"op": "accessClass", "cls": k, "attr": rng.choice(attrs_of(self.classes, k))}
        if kind in ("subscribe", "wait"):
            if not self.chan_ev or len(self.streams) >= 6:
                return None
            s = len(self.streams)
            chans = rng.sample(range(len(self.chan_ev)), min(len(self.chan_ev), rng.choice([1, 1, 2, 3])))
            op: dict[str, Any] = {"op": kind, "s": s, "chans": chans, "filter": self.gen_filter()}
            if kind == "subscribe":
                op["cap"] = rng.choice(self.caps)
            if rng.random() < 0.03:
                op["unbound"] = True
                op.update(self.unbound_ref())
                return op
            self.streams[s] = {"open": True, "once": kind == "wait"}
            return op
        if kind == "dispatch":
            if not self.chan_ev:
                return None
            if rng.random() < 0.03:
                return {"op": "dispatch", "chan": None, "cls": 0, "n": 1, **self.unbound_ref()}
            subscribed = sorted({c for st in self.streams.values() if st["open"] for c in st.get("chans", [])})
            dead_chans = {n for (i, _a), n in self.chan_of.items() if i in self.dead}
            live_chans = [n for n in range(len(self.chan_ev)) if n not in dead_chans]
            if not live_chans:
                return None
            chan = rng.choice(live_chans)       # (the signals of a collected instance cannot be reached any more)
            want = self.chan_ev[chan]
            good = [k for k in range(self.nev) if is_sub(self.evparents, k, want)]
            cls = rng.choice(good) if rng.random() < 0.93 else rng.randrange(self.nev)
            n = 1
            if rng.random() < self.p_burst:
                n = rng.choice([2, 2, 3, 4, 5, 8]) if rng.random() < 0.93 else rng.choice([52, 60])
            if is_sub(self.evparents, cls, want):
                self.n_dispatched += n
            return {"op": "dispatch", "chan": chan, "cls": cls, "n": n}
        if kind == "pull":
            if not open_streams:
                return None
            open_streams = [s for s in open_streams if not self.streams[s].get("finished")]
            if not open_streams:
                return None
            return {"op": "pull", "s": rng.choice(open_streams)}
        if kind == "leave":
            if not open_streams or rng.random() < 0.3:
                return None
            s = rng.choice(open_streams)
            self.streams[s]["open"] = False
            return {"op": "leave", "s": s}
        return None


class SigProp(Prop):
    backends = ("asyncio", "trio")
    gen_kwargs: dict[str, Any] = {}
    n_ops = (10, 45)

    def generate(self, rng: random.Random, tier: str, index: int) -> dict[str, Any]:
        g = SigGen(rng, **self.gen_kwargs)
        lo, hi = self.n_ops
        case = g.build(rng.randint(lo, hi))
        case["backend"] = self.backends[index % 2]
        return case

    def run_impl(self, case):
        from ..impl.sigs import run_sig_case

        return run_sig_case(case)

    def model_request(self, case, impl):
        # "finish" (the consumer finalises its iterator and stays subscribed) changes nothing in the model: such a
        # consumer is one that never pulls again
        return {"kind": "sig", "evparents": case["evparents"], "ops": [op for op in case["ops"] if op["op"] != "finish"]}

    def compare(self, case, impl, model):
        kept = [(i, r) for i, (op, r) in enumerate(zip(case["ops"], impl["out"])) if op["op"] != "finish"]
        for i, (op, r) in enumerate(zip(case["ops"], impl["out"])):
            if op["op"] == "finish" and r != ["ok"]:
                return f"step {i} {op}: finalising the iterator of an open stream gave {r}"
        for m, (i, r) in zip(model["out"], kept):
            if m != r:
                return f"step {i} {case['ops'][i]}: model {m} vs implementation {r}"
        if model["warnings"] != impl["warnings"]:
            return f"SignalQueueFull warnings: model {model['warnings']} vs implementation {impl['warnings']}"
        for st in model["streams"]:
            if impl["delivered"].get(str(st["id"]), []) != st["delivered"]:
                return f"stream {st['id']}: model delivers {st['delivered']}, implementation {impl['delivered'].get(str(st['id']))}"
        return None

    def shrink(self, case) -> Iterator[dict[str, Any]]:
        ops = case["ops"]
        for i in reversed(range(len(ops))):
            cand = ops[:i] + ops[i + 1:]
            if valid_sig_ops(case, cand):
                yield {**case, "ops": cand}
        for i, op in enumerate(ops):
            if op["op"] == "dispatch" and op.get("n", 1) > 1:
                yield {**case, "ops": ops[:i] + [{**op, "n": op["n"] // 2}] + ops[i + 1:]}
            if op["op"] in ("subscribe", "wait") and op["filter"]["k"] != "all":
                yield {**case, "ops": ops[:i] + [{**op, "filter": {"k": "all"}}] + ops[i + 1:]}
        if case.get("backend") == "trio":
            yield {**case, "backend": "asyncio"}


def valid_sig_ops(case: dict[str, Any], ops: list[dict[str, Any]]) -> bool:
    """Channel numbers are assigned in first-access order and stream numbers must be declared
    before use: a shrunk list must keep both consistent."""
    chans: dict[tuple[int, str], int] = {}
    streams: set[int] = set()
    finished: set[int] = set()
    nchan = 0
    for op in ops:
        k = op["op"]
        if k == "access":
            key = (op["inst"], op["attr"])
            if key not in chans:
                chans[key] = nchan
                nchan += 1
        elif k in ("subscribe", "wait"):
            if any(c >= nchan for c in op["chans"]) or op["s"] in streams:
                return False
            if op["filter"]["k"] == "chanIs" and op["filter"]["c"] >= nchan:
                return False
            if not op.get("unbound"):
                streams.add(op["s"])
        elif k == "dispatch":
            if op["chan"] is not None and op["chan"] >= nchan:
                return False
        elif k in ("pull", "leave", "finish"):
            if op["s"] not in streams or (k == "pull" and op["s"] in finished):
                return False
            if k == "finish":
                finished.add(op["s"])
    # the channel numbering of the original must be preserved
    orig: dict[tuple[int, str], int] = {}
    n = 0
    for op in case["ops"]:
        if op["op"] == "access" and (op["inst"], op["attr"]) not in orig:
            orig[(op["inst"], op["attr"])] = n
            n += 1
    return all(orig[k] == v for k, v in chans.items())


def stream_windows(case: dict[str, Any]) -> dict[int, dict[str, Any]]:
    out: dict[int, dict[str, Any]] = {}
    for i, op in enumerate(case["ops"]):
        if op["op"] in ("subscribe", "wait") and not op.get("unbound") and op["s"] not in out:
            out[op["s"]] = {"from": i, "to": len(case["ops"]), "chans": op["chans"], "filter": op["filter"],
                            "once": op["op"] == "wait", "cap": op.get("cap", 50)}
        elif op["op"] == "leave" and op["s"] in out and out[op["s"]]["to"] == len(case["ops"]):
            out[op["s"]]["to"] = i
    return out


def expected_by_statement(case: dict[str, Any], impl: dict[str, Any]) -> tuple[dict[int, list[int]], int]:
    """C10's statement, literally, replayed over the operations of the case: a stream yields the
    events dispatched on its signals between entering and leaving it that pass its filter and did
    not overflow its queue (a waiting consumer takes an event directly; otherwise the queue holds
    `cap` events; beyond that the event is lost for that subscriber, with one warning)."""
    chan_subs: dict[int, list[int]] = {}
    st: dict[int, dict[str, Any]] = {}
    delivered: dict[int, list[int]] = {}
    warnings = 0
    seq = 0

    def take(x: dict[str, Any], s: int) -> None:
        """The consumer pulls until an event passes its filter or the queue is empty."""
        while x["buf"]:
            e = x["buf"].pop(0)
            if filter_pass(x["filter"], *e):
                delivered[s].append(e[0])
                if x["once"]:
                    close(s)
                return
        x["waiting"] = True

    def close(s: int) -> None:
        st[s]["open"] = False
        st[s]["waiting"] = False
        for subs in chan_subs.values():
            if s in subs:
                subs.remove(s)

    for op, out in zip(case["ops"], impl["out"]):
        k = op["op"]
        if k in ("subscribe", "wait") and not op.get("unbound") and op["s"] not in st:
            st[op["s"]] = {"filter": op["filter"], "cap": op.get("cap", 50), "buf": [], "waiting": False,
                           "once": k == "wait", "open": True, "handed": None}
            delivered[op["s"]] = []
            for c in op["chans"]:
                chan_subs.setdefault(c, []).append(op["s"])
            if k == "wait":
                st[op["s"]]["waiting"] = True
        elif k == "dispatch" and out[:1] == ["ok"]:
            for _ in range(op.get("n", 1)):
                e = (seq, op["cls"], op["chan"])
                seq += 1
                for s in list(chan_subs.get(op["chan"], [])):
                    x = st[s]
                    if x["waiting"]:
                        x["waiting"] = False
                        x["handed"] = e
                    elif len(x["buf"]) < x["cap"]:
                        x["buf"].append(e)
                    else:
                        warnings += 1
            # the dispatching code reaches a checkpoint: consumers that were handed an event run
            for s, x in st.items():
                if x["handed"] is not None:
                    e, x["handed"] = x["handed"], None
                    if filter_pass(x["filter"], *e):
                        delivered[s].append(e[0])
                        if x["once"]:
                            close(s)
                    else:
                        take(x, s)
        elif k == "pull" and op["s"] in st and st[op["s"]]["open"] and not st[op["s"]]["waiting"]:
            take(st[op["s"]], op["s"])
        elif k == "leave" and op["s"] in st and st[op["s"]]["open"]:
            close(op["s"])
    return delivered, warnings


def monitor_delivery(case: dict[str, Any], impl: dict[str, Any]) -> list[str]:
    """C10, literally, on what the implementation delivered."""
    fails: list[str] = []
    for f in impl["flags"]:
        if "dispatch raised" in f or "wrong source" in f:
            fails.append(f)
    disp: list[tuple[int, int, int, int]] = []   # (seq, chan, cls, opidx)
    seq = 0
    for i, (op, out) in enumerate(zip(case["ops"], impl["out"])):
        if op["op"] == "dispatch" and out[:1] == ["ok"]:
            for _ in range(op.get("n", 1)):
                disp.append((seq, op["chan"], op["cls"], i))
                seq += 1
    windows = stream_windows(case)
    for s, w in windows.items():
        got = impl["delivered"].get(str(s), [])
        cand = [d for d in disp if d[1] in w["chans"] and w["from"] < d[3] <= w["to"]]
        passing = [d[0] for d in cand if filter_pass(w["filter"], d[0], d[2], d[1])]
        if any(b <= a for a, b in zip(got, got[1:])):
            fails.append(f"stream {s} received events out of dispatch order or twice: {got}")
        extra = [x for x in got if x not in passing]
        if extra:
            fails.append(f"stream {s} received events {extra} that were not dispatched on its signals while it was "
                         f"subscribed or do not pass its filter")
        if w["once"] and len(got) > 1:
            fails.append(f"wait_event {s} returned more than once: {got}")
    want, want_warn = expected_by_statement(case, impl)
    for s in windows:
        got = impl["delivered"].get(str(s), [])
        if got != want.get(s, []):
            fails.append(f"stream {s} received {got}; the events dispatched while it was subscribed that pass its filter and "
                         f"did not overflow its queue are {want.get(s, [])}")
    if impl["warnings"] != want_warn:
        fails.append(f"{impl['warnings']} SignalQueueFull warnings for {want_warn} overflowing deliveries")
    return fails


class C10Main(SigProp):
    kinds = ("sig",)
    id = "C10"
    quick_cases = 800
    thorough_cases = 50000
    gen_kwargs = {"p_burst": 0.3}
    rule = ("1-3 owner classes x 1-3 signals, 1-4 instances, up to 6 streams over 1-3 signals each with filters from a pool "
            "of 6 predicates and queue sizes 0/1/2/3/50, consumers that are waiting / slow / leave mid-history / are "
            "cancelled while waiting, wait_event callers, dispatch bursts (2-8 and 52/60 events in one atomic section), "
            "wrong event classes, unbound use. Non-trivial: >=2 subscribers on one signal and either an overflow or a "
            "subscriber leaving while dispatching continues")
    assumptions = ["anyio memory object stream semantics (direct hand-over to a waiting receiver, WouldBlock) are modelled, "
                   "not verified", "which subscriber overflowed is not observable from the warning: only the count is compared",
                   "event.time is only checked to be a float"]

    def monitor(self, case, impl):
        return ["[C10] " + f for f in monitor_delivery(case, impl)]

    def nontrivial(self, case, impl):
        windows = stream_windows(case)
        shared = any(set(a["chans"]) & set(b["chans"]) and a["from"] < b["to"] and b["from"] < a["to"]
                     for i, a in windows.items() for j, b in windows.items() if i < j)
        if not shared:
            return False
        left_mid = any(w["to"] < len(case["ops"]) and any(o["op"] == "dispatch" for o in case["ops"][w["to"]:])
                       for w in windows.values())
        return impl["warnings"] > 0 or left_mid

    def features(self, case, impl):
        f = {"backend_" + case["backend"], f"streams_{len(stream_windows(case))}"}
        if impl["warnings"]:
            f.add("overflow")
        if impl.get("listen_checked"):
            f.add("owner_dropped_while_listened_to")
        for op, out in zip(case["ops"], impl["out"]):
            f.add(op["op"] + ":" + (out[0].split(" ")[0] if out else "-"))
            if op["op"] == "dispatch" and op.get("n", 1) > 1:
                f.add("burst")
        return sorted(f)


class C10Churn(Prop):
    """Subscribers coming and going while another task keeps dispatching, one scheduling round per event: dispatch never
    raises because of a subscriber's state (subscribing, leaving, gone), and a subscriber that stays receives every event
    exactly once, in order. Decided on the implementation only (no model: the interleaving is the scheduler's)."""
    id = "C10"
    kinds = ("churn",)

    def generate(self, rng: random.Random, tier: str, index: int) -> dict[str, Any]:
        return {"kind": "churn", "backend": ("asyncio", "trio")[index % 2], "n": rng.randint(15, 40),
                "short": [{"takes": rng.randint(1, 3), "rounds": rng.randint(1, 4), "pause": rng.randint(0, 3),
                           "wait": rng.random() < 0.3} for _ in range(rng.randint(2, 6))]}

    def run_impl(self, case):
        import anyio

        from asphalt.core import Event, Signal

        from ..impl import vclock

        class Ev(Event):
            def __init__(self, seq: int) -> None:
                self.seq = seq

        class Owner:
            sig = Signal(Ev)

        async def main() -> dict[str, Any]:
            owner = Owner()
            got: list[int] = []
            raised: list[str] = []
            errors: list[str] = []
            n = case["n"]
            ready = anyio.Event()

            async def stayer() -> None:
                async with owner.sig.stream_events(max_queue_size=10000) as stream:
                    ready.set()
                    async for ev in stream:
                        got.append(ev.seq)
                        if ev.seq == n - 1:
                            return

            async def visitor(spec: dict[str, Any]) -> None:
                try:
                    for _ in range(spec["rounds"]):
                        for _ in range(spec["pause"]):
                            await anyio.lowlevel.checkpoint()
                        if spec["wait"]:
                            with anyio.move_on_after(10 ** 6):
                                await owner.sig.wait_event()
                            continue
                        async with owner.sig.stream_events() as stream:
                            for _ in range(spec["takes"]):
                                with anyio.move_on_after(10 ** 6):
                                    await stream.__anext__()
                except Exception as e:  # noqa: BLE001
                    errors.append(f"a subscriber's own stream raised {type(e).__name__}: {e}")

            async with anyio.create_task_group() as tg:
                tg.start_soon(stayer)
                await ready.wait()
                for spec in case["short"]:
                    tg.start_soon(visitor, spec)
                for i in range(n):
                    try:
                        owner.sig.dispatch(Ev(i))
                    except BaseException as e:  # noqa: BLE001
                        raised.append(f"dispatch of event {i} raised {type(e).__name__}")
                    await anyio.lowlevel.checkpoint()
                await anyio.sleep(1)
                tg.cancel_scope.cancel()
            return {"got": got, "raised": raised, "errors": errors}

        return vclock.run(main, backend=case["backend"])

    def model_request(self, case, impl):
        return None

    def compare(self, case, impl, model):
        return None

    def monitor(self, case, impl):
        fails = list(impl["raised"][:3]) + list(impl["errors"][:3])
        if impl["got"] != list(range(case["n"])):
            fails.append(f"a subscriber that stayed for all {case['n']} events received {impl['got'][:50]}")
        return ["[C10] " + f for f in fails]

    def nontrivial(self, case, impl):
        return len(case["short"]) >= 3

    def features(self, case, impl):
        return ["churn", "backend_" + case["backend"]]

    def shrink(self, case):
        for i in range(len(case["short"])):
            yield {**case, "short": case["short"][:i] + case["short"][i + 1:]}
        if case["n"] > 5:
            yield {**case, "n": case["n"] // 2}


class C10Contexts(Prop):
    """The signal asphalt itself relies on - `Context.resource_added` - with the objects asphalt itself puts around a
    context: a component's own context (what `current_context()` is inside `prepare()`/`start()`) is another instance
    than the context it stands for. Whoever looks at which of the two signals first, in whatever order: a listener on the
    real context receives every event dispatched there - during start-up and after it, when the components' contexts are
    gone -, stamped with the real context as its source. Decided on the implementation only."""
    id = "C10"
    kinds = ("ctxsignal",)

    def generate(self, rng: random.Random, tier: str, index: int) -> dict[str, Any]:
        return {"kind": "ctxsignal", "backend": ("asyncio", "trio")[index % 2], "component_first": rng.random() < 0.7,
                "listen_in_start": rng.random() < 0.5, "own_listener": rng.random() < 0.5, "n_after": rng.randint(1, 3),
                "timeout": rng.choice([None, 5])}

    def exhaustive(self, tier: str):
        return [{"kind": "ctxsignal", "backend": b, "component_first": cf, "listen_in_start": ls, "own_listener": ol,
                 "n_after": 2, "timeout": to, "origin": "ctxsignal"}
                for b in ("asyncio", "trio") for cf in (False, True) for ls in (False, True) for ol in (False, True)
                for to in (None, 5)]

    def run_impl(self, case):
        import gc

        import anyio

        from asphalt.core import Component, Context, add_resource, current_context, start_component

        from ..impl import vclock
        from ..impl.kernel import TYPES

        async def main() -> dict[str, Any]:
            got: list[tuple[str, bool]] = []
            own: list[str] = []
            errors: list[str] = []
            sent: list[str] = []

            async with anyio.create_task_group() as tg:
                async with Context() as ctx:
                    listening = anyio.Event()

                    async def listen() -> None:
                        async with ctx.resource_added.stream_events(max_queue_size=1000) as stream:
                            listening.set()
                            async for ev in stream:
                                got.append((ev.resource_name, ev.source is ctx))

                    async def listen_own(cc: Any, started: Any) -> None:
                        # a listener on the component's own context (whether anything is dispatched there is nobody's business
                        # here: it only makes that signal a used one)
                        async with cc.resource_added.stream_events(max_queue_size=1000) as stream:
                            started.set()
                            async for ev in stream:
                                own.append(ev.resource_name)

                    class Comp(Component):
                        async def start(self) -> None:
                            cc = current_context()
                            if cc is ctx:
                                errors.append("inside start() the current context is the surrounding context itself")
                            if case["component_first"]:
                                _ = cc.resource_added
                            if case["own_listener"]:
                                started = anyio.Event()
                                tg.start_soon(listen_own, cc, started)
                                await started.wait()
                            if case["listen_in_start"] and not listening.is_set():
                                tg.start_soon(listen)
                                await listening.wait()
                            add_resource(TYPES[0](1), "during")
                            sent.append("during")

                    if not case["listen_in_start"]:
                        if not case["component_first"]:
                            tg.start_soon(listen)
                            await listening.wait()
                    try:
                        await start_component(Comp, timeout=case["timeout"])
                    except BaseException as e:  # noqa: BLE001
                        errors.append(f"start_component raised {type(e).__name__}: {e}")
                    if not listening.is_set():
                        tg.start_soon(listen)
                        await listening.wait()
                    for _ in range(3):
                        await anyio.lowlevel.checkpoint()
                    gc.collect()
                    for k in range(case["n_after"]):
                        try:
                            ctx.add_resource(TYPES[0](10 + k), f"after{k}")
                            sent.append(f"after{k}")
                        except BaseException as e:  # noqa: BLE001
                            errors.append(f"add_resource after start-up raised {type(e).__name__}")
                    await anyio.sleep(1)
                tg.cancel_scope.cancel()
            late = not case["listen_in_start"] and case["component_first"]
            return {"got": got, "own": own, "errors": errors, "sent": [s for s in sent if not (late and s == "during")]}

        return vclock.run(main, backend=case["backend"])

    def model_request(self, case, impl):
        return None

    def compare(self, case, impl, model):
        return None

    def monitor(self, case, impl):
        fails = list(impl["errors"][:3])
        names = [n for n, _ in impl["got"]]
        if names != impl["sent"]:
            fails.append(f"a listener on the context's resource_added received {names}, dispatched while it listened: {impl['sent']}")
        if any(not ok for _, ok in impl["got"]):
            fails.append("an event of the context's resource_added signal is not stamped with that context as its source")
        return ["[C10] " + f for f in fails]

    def nontrivial(self, case, impl):
        return case["component_first"]

    def features(self, case, impl):
        return ["context_signal", "backend_" + case["backend"]] + (["component_looks_first"] if case["component_first"] else [])


class C10(Composite):
    id = "C10"
    quick_cases = C10Main.quick_cases
    thorough_cases = C10Main.thorough_cases
    parts = [(15, C10Main()), (1, C10Churn()), (1, C10Contexts())]
    rule = C10Main.rule + ("; one case in sixteen is a churn run: 2-6 short-lived subscribers (stream_events taking 1-3 "
                           "events, wait_event) come and go for several rounds while another task dispatches 15-40 events, "
                           "one scheduling round apart; a subscriber that stays must get them all, dispatch must never raise; one in seventeen "
                           "(and 32 enumerated cases) is about Context.resource_added with a component's own context beside the real "
                           "one: whoever looks at which signal first, a listener on the real context gets every event, during start-up "
                           "and after it, stamped with the real context")
    assumptions = C10Main.assumptions


PROP = C10()
