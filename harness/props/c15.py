"""C15 — run_application: every ending tears down the root context and exits as documented."""

from __future__ import annotations

import random
from typing import Any, Iterator

from ..core import Prop

ENDINGS = ["cliReturn", "cliRaise", "startupFail", "startupTimeout", "signalDuringStartup", "signalAfterStartup",
           "crashAfterStartup"]


def gen_case(rng: random.Random) -> dict[str, Any]:
    kind = rng.choice(ENDINGS)
    ncomp = rng.randint(1, 5)
    nid = 0
    comps = []
    for _ in range(ncomp):
        regs = []
        for _ in range(rng.randint(0, 4)):
            nid += 1
            regs.append({"id": nid, "pass": rng.random() < 0.5, "async": rng.random() < 0.4, "late": []})
            if rng.random() < 0.2:
                regs[-1].update({"via": "res", "pass": False})      # add_resource(..., types=[A, B], teardown_callback=)
            elif rng.random() < 0.2:
                regs[-1].update({"via": "ctxtd", "pass": True})     # @context_teardown inside the component's start()
            if rng.random() < 0.2:
                for _ in range(rng.randint(1, 2)):
                    nid += 1
                    regs[-1]["late"].append({"id": nid, "pass": rng.random() < 0.5, "async": False})
        comps.append({"regs": regs, "svc": rng.choice([0, 0, 1, 2]), "tick": rng.choice([0, 0, 1, 2])})
    ending: dict[str, Any] = {"k": kind, "comp": rng.randrange(ncomp), "mid": rng.random() < 0.5,
                              "sig": rng.choice(["SIGTERM", "SIGINT"]), "d": rng.choice([0, 1, 3])}
    cli = kind in ("cliReturn", "cliRaise") or (kind in ("crashAfterStartup",) and rng.random() < 0.5) or \
        (kind in ("startupFail", "startupTimeout", "signalDuringStartup") and rng.random() < 0.5)
    if kind == "startupTimeout" and rng.random() < 0.4:
        ending["t0"] = True         # start_timeout=0: the time limit strikes as soon as start-up has to wait for anything
    if kind == "signalDuringStartup" and rng.random() < 0.4:
        ending["shieldFail"] = True
    if kind == "cliReturn":
        r = rng.choice(["none", "int", "int", "int", "other"])
        ending["r"] = r
        if r == "int":
            ending["n"] = rng.choice([0, 0, 1, 5, 127, 128, 300, -1, -128])
            ending["isub"] = rng.choice([None, None, "enum", "cls"])
        if r == "other":
            ending["ov"] = rng.randrange(9)     # index into impl.runner.NON_INTS
    if kind in ("cliRaise", "crashAfterStartup"):
        ending["e"] = rng.randrange(3)
    if kind in ("signalAfterStartup", "crashAfterStartup"):
        ending["d"] = rng.choice([10, 12, 20])      # well after start-up (which takes < 5 ticks)
    return {"kind": "runner", "cli": cli, "comps": comps, "ending": ending}


def documented_exit(ending: dict[str, Any]) -> dict[str, Any]:
    """The statement's table, literally."""
    k = ending["k"]
    if k == "cliReturn":
        if ending["r"] == "none":
            return {"k": "returned"}
        if ending["r"] == "other":
            return {"k": "systemExit", "n": 1}
        n = ending["n"]
        if n == 0:
            return {"k": "returned"}
        return {"k": "systemExit", "n": n if 1 <= n <= 127 else 1}
    if k in ("cliRaise", "crashAfterStartup"):
        return {"k": "propagated", "e": ending["e"]}
    if k == "signalAfterStartup":
        return {"k": "returned"}
    return {"k": "systemExit", "n": 1}


class C15(Prop):
    id = "C15"
    quick_cases = 200
    thorough_cases = 5000
    rule = ("applications of 1-5 components registering 0-4 teardown callbacks each (sync / async, with / without "
            "pass_exception, before and after the point of failure) and 0-2 service tasks, CLI and non-CLI roots; every "
            "ending: run() returning None / 0 / 1..127 / out-of-range / negative / non-int or raising, a component "
            "failing during start-up, start-up time-out, SIGINT / SIGTERM (real signals, raised in-process) during (also: while "
            "a component is in a shielded step after which it fails) and "
            "after start-up, a service task crashing after start-up; both back-ends. Non-trivial: >=3 teardown "
            "callbacks registered by >=2 components and an ending other than a clean return")
    assumptions = ["OS signal delivery and sys.exit are implementation-side", "the order in which sibling components register "
                   "their callbacks is the scheduler's: taken from the observation",
                   "a service-task crash during start-up is not generated (the statement fixes neither outcome)"]

    def generate(self, rng: random.Random, tier: str, index: int) -> dict[str, Any]:
        case = gen_case(rng)
        case["backend"] = ("asyncio", "trio")[index % 2]
        return case

    def exhaustive(self, tier: str):
        """The whole decision table on two fixed applications, both back-ends (both tiers)."""
        apps = [
            [{"regs": [{"id": 1, "pass": True, "async": False}, {"id": 2, "pass": False, "async": True},
                       {"id": 5, "pass": False, "async": False, "via": "res"},
                       {"id": 6, "pass": True, "async": False, "via": "ctxtd"}], "svc": 1, "tick": 0}],
            [{"regs": [{"id": 1, "pass": False, "async": False}], "svc": 0, "tick": 1},
             {"regs": [{"id": 2, "pass": True, "async": True, "late": [{"id": 21, "pass": True, "async": False}]},
                       {"id": 3, "pass": True, "async": False}], "svc": 1, "tick": 0},
             {"regs": [{"id": 4, "pass": False, "async": False}], "svc": 2, "tick": 2}],
        ]
        endings: list[dict[str, Any]] = [{"k": "cliReturn", "r": "none"}]
        endings += [{"k": "cliReturn", "r": "other", "ov": ov} for ov in range(9)]
        endings += [{"k": "cliReturn", "r": "int", "n": n} for n in (0, 1, 2, 126, 127, 128, 255, 256, 1000, -1, -127, -128)]
        endings += [{"k": "cliReturn", "r": "int", "n": n, "isub": kind} for n in (0, 3, 127, 128) for kind in ("enum", "cls")]
        endings += [{"k": "cliRaise", "e": 1}, {"k": "startupFail"}, {"k": "startupTimeout"}, {"k": "startupTimeout", "t0": True},
                    {"k": "signalDuringStartup", "sig": "SIGINT"}, {"k": "signalDuringStartup", "sig": "SIGTERM"},
                    {"k": "signalDuringStartup", "sig": "SIGINT", "shieldFail": True},
                    {"k": "signalDuringStartup", "sig": "SIGTERM", "shieldFail": True},
                    {"k": "signalAfterStartup", "sig": "SIGINT", "d": 10}, {"k": "signalAfterStartup", "sig": "SIGTERM", "d": 10},
                    {"k": "crashAfterStartup", "e": 2, "d": 10}]
        cases = []
        for backend in ("asyncio", "trio"):
            for comps in apps:
                for e in endings:
                    for comp in {0, len(comps) - 1}:
                        for cli in ((True,) if e["k"].startswith("cli") else (False,) if e["k"] == "signalAfterStartup" else (True, False)):
                            cases.append({"kind": "runner", "backend": backend, "cli": cli, "comps": comps,
                                          "ending": {"comp": comp, "mid": True, "d": 0, **e}, "origin": "decision-table"})
        return cases

    def run_impl(self, case):
        from ..impl.runner import run_runner_case

        return run_runner_case(case)

    def model_request(self, case, impl):
        specs = {r["id"]: r for c in case["comps"] for r in c["regs"]}
        regs = [[l[1], l[2], [[x["id"], x["pass"]] for x in specs.get(l[1], {}).get("late", [])]]
                for l in impl["log"] if l[0] == "reg"]
        e = dict(case["ending"])
        return {"kind": "runner", "regs": regs, "ending": e}

    def compare(self, case, impl, model):
        tds = [f"td+ {l[1]} {l[2]}" for l in impl["log"] if l[0] == "td"]
        if model["starts"] != tds:
            return f"teardown of the root context: model {model['starts']} vs implementation {tds}"
        if model["exit"] != impl["outcome"]:
            return f"exit: model {model['exit']} vs implementation {impl['outcome']}"
        return None

    def monitor(self, case, impl):
        fails = []
        log = impl["log"]
        regs = [l[1] for l in log if l[0] in ("reg", "lreg")]
        tds = [l[1] for l in log if l[0] == "td"]
        if sorted(tds) != sorted(regs):
            fails.append(f"teardown callbacks registered {regs}, run {tds} (each exactly once)")
        else:
            # reverse order of registration, also for what is registered during the teardown: every
            # callback that runs is the most recently registered one that has not run yet
            stack: list[int] = []
            for l in log:
                if l[0] in ("reg", "lreg"):
                    stack.append(l[1])
                elif l[0] == "td":
                    if not stack or stack[-1] != l[1]:
                        fails.append(f"teardown callback {l[1]} ran while the most recently registered pending one was "
                                     f"{stack[-1] if stack else None} (registered {regs}, ran {tds})")
                        break
                    stack.pop()
        done = next(k for k, l in enumerate(log) if l[0] == "done")
        if any(l[0] == "td" for l in log[done:]):
            fails.append("a teardown callback ran after run_application had returned / raised")
        want = documented_exit(case["ending"])
        if any(l[0] == "stoppedByGuard" for l in log):
            fails.append(f"the application was still running after 10^6 ticks (stopped by the harness); documented ending: {want}")
        elif impl["outcome"] != want:
            fails.append(f"the application ended with {impl['outcome']}, documented: {want}")
        nsvc = sum(c.get("svc", 0) for k, c in enumerate(case["comps"]))
        stopped = sum(1 for l in log if l[0] == "svcStopped")
        started = stopped  # every started idle service logs when it stops
        if any(l[0] == "svcStopped" for l in log[done:]):
            fails.append("a service task was still running after run_application had returned / raised")
        return ["[C15] " + f for f in fails]

    def nontrivial(self, case, impl):
        regs = [l for l in impl["log"] if l[0] == "reg"]
        comps = sum(1 for c in case["comps"] if c["regs"])
        return len(regs) >= 3 and comps >= 2 and impl["outcome"] != {"k": "returned"}

    def features(self, case, impl):
        return sorted({"backend_" + case["backend"], "ending_" + case["ending"]["k"], "cli" if case["cli"] else "noncli",
                       "exit_" + impl["outcome"]["k"], f"callbacks_{min(len([l for l in impl['log'] if l[0] == 'reg']), 9)}"})

    def shrink(self, case) -> Iterator[dict[str, Any]]:
        comps = case["comps"]
        for i in reversed(range(1, len(comps))):
            if case["ending"].get("comp", 0) != i:
                e = dict(case["ending"])
                if e.get("comp", 0) > i:
                    e["comp"] -= 1
                yield {**case, "comps": comps[:i] + comps[i + 1:], "ending": e}
        for i, c in enumerate(comps):
            for k in reversed(range(len(c["regs"]))):
                c2 = {**c, "regs": c["regs"][:k] + c["regs"][k + 1:]}
                yield {**case, "comps": comps[:i] + [c2] + comps[i + 1:]}
            if c.get("svc"):
                yield {**case, "comps": comps[:i] + [{**c, "svc": 0}] + comps[i + 1:]}
        if case["backend"] == "trio":
            yield {**case, "backend": "asyncio"}


PROP = C15()
