"""C14 — component configuration is a layered deep merge that fully determines the tree (mode E)."""

from __future__ import annotations

import copy
import random
from typing import Any, Iterator

from ..canon import from_cfg, to_cfg
from ..core import Prop
from ..gen_cfg import gen_dict, gen_overlapping

NCLS = 8
KW_KEYS = ["a", "b", "opts", "x.y", "lim", "resource_name", "name"]     # (option names a framework might be tempted to read)
NAME_PARTS = ["foo", "bar", "n_1"]
MODREF = "harness.impl.compmod:K{}"
DYNREF = "harness.impl.compmod:KD{}"      # a module attribute that is bound to a fresh class for every case
BAD_TYPES = [{"s": "nosuch"}, {"s": "notacomp"}, {"s": "harness.impl.compmod:NotAComponent"},
             {"s": "harness.impl.compmod:Missing"}, {"o": "5"}]


def resolve_table() -> list[list[Any]]:
    t: list[list[Any]] = []
    for i in range(NCLS):
        t.append([f"ep{i}", i])
        t.append([MODREF.format(i), i])
    for i in range(NCLS):
        t.append([DYNREF.format(i), i])
    t.append(["notacomp", 99])
    t.append(["harness.impl.compmod:NotAComponent", 99])
    return t


def type_ref(rng: random.Random, i: int) -> dict[str, Any]:
    r = rng.random()
    if r < 0.4:
        return {"c": i}
    if r < 0.65:
        return {"s": f"ep{i}"}
    if r < 0.85:
        return {"s": MODREF.format(i)}
    return {"s": DYNREF.format(i)}


def gen_alias(rng: random.Random, i: int, explicit_type: bool, used: set[str]) -> str:
    for _ in range(20):
        if explicit_type:
            base = rng.choice(["db", "svc", "x", "child", f"ep{rng.randrange(NCLS)}"])
        else:
            base = f"ep{i}"
        alias = base + ("/" + rng.choice(NAME_PARTS) if rng.random() < 0.45 else "")
        if alias not in used:
            used.add(alias)
            return alias
    alias = f"u{len(used)}"
    used.add(alias)
    return alias


class C14(Prop):
    id = "C14"
    quick_cases = 500
    thorough_cases = 30000
    rule = ("class tables of <=8 component classes with hard-coded add_component() children (types given as class, "
            "module:attr, entry-point name or defaulting to the alias; aliases with and without /name), external "
            "configuration trees that override / extend / nest dicts / use None for config-only children, depth <=4; "
            "every component publishes resources in prepare() and start(); non-trivial = >=3 components, at least one "
            "external override of a hard-coded child and at least one kind/name alias")
    assumptions = ["'leaves the configuration object unmodified' and 'equal configurations give equal trees' are decided on "
                   "the implementation only (deep snapshot, second start with the same object)",
                   "entry points are read from harness/eps/verif_eps-0.0.dist-info (a real dist-info on sys.path)"]

    def generate(self, rng: random.Random, tier: str, index: int) -> dict[str, Any]:
        ncls = rng.randint(1, NCLS)
        classes = []
        # class i may only hard-code children of classes j > i (acyclic)
        for i in range(ncls):
            kids = []
            used: set[str] = set()
            if i + 1 < ncls:
                for _ in range(rng.choice([0, 0, 1, 1, 2, 3])):
                    j = rng.randrange(i + 1, ncls)
                    explicit = rng.random() < 0.6
                    alias = gen_alias(rng, j, explicit, used)
                    kw = gen_dict(rng, 2, 3, KW_KEYS)
                    ty = type_ref(rng, j) if explicit else None
                    entry = [["type", ty if ty is not None else {"s": alias}]] + to_cfg(kw)["d"]
                    kids.append([alias, {"d": entry}])
            padd = rng.choice([[], [], ["default"], ["pp"], ["default", "pp"]])
            sadd = rng.choice([[], ["ss"], ["default"], ["default", "ss"]])
            if i % 2:
                sadd = [{"ss": "de", "pp": "fault"}.get(n, n) for n in sadd]      # (explicit names that are pieces of "default")
            if "default" in padd and "default" in sadd:
                sadd = [n for n in sadd if n != "default"]
            classes.append({"id": i, "children": {"d": kids}, "fails": rng.random() < 0.03,
                            "prepare_adds": padd, "start_adds": sadd})
        for i in range(ncls, NCLS):   # the remaining classes exist (resolvable) but are plain
            classes.append({"id": i, "children": {"d": []}, "fails": False, "prepare_adds": [], "start_adds": []})
        root = 0
        ext = self._gen_external(rng, classes, root, 4)
        rootcfg = gen_dict(rng, 2, 3, KW_KEYS)
        cfg_items = to_cfg(rootcfg)["d"]
        if ext is not None:
            cfg_items.append(["components", ext])
            rng.shuffle(cfg_items)
        return {"kind": "init", "classes": classes, "resolve": resolve_table(),
                "root_type": type_ref(rng, root), "config": {"d": cfg_items}}

    def _gen_external(self, rng: random.Random, classes: list[dict[str, Any]], cid: int, depth: int) -> Any:
        """External `components` section for an instance of class cid."""
        if depth == 0 or rng.random() < 0.25:
            return None if rng.random() < 0.8 else {"n": None}
        ncls = sum(1 for c in classes if c["children"]["d"] or c["prepare_adds"] or c["start_adds"]) or 1
        ncls = max(ncls, cid + 1)
        out = []
        hard = classes[cid]["children"]["d"]
        used = {a for a, _ in hard}
        for alias, entry in hard:
            r = rng.random()
            if r < 0.45:
                continue
            if r < 0.52:
                out.append([alias, {"n": None}])
                continue
            hd = from_cfg(entry)
            hard_type = hd.pop("type")
            ov = gen_overlapping(rng, hd, 2, KW_KEYS)
            items = to_cfg(ov)["d"]
            # child class: resolve the hard-coded type to recurse
            j = self._class_of(hard_type, alias)
            if rng.random() < 0.2 and j is not None:
                items.append(["type", type_ref(rng, j)])       # same class, other spelling
            elif rng.random() < 0.05:
                j2 = rng.randrange(ncls)
                items.append(["type", type_ref(rng, j2)])
                j = j2
            if j is not None and j < ncls:
                sub = self._gen_external(rng, classes, j, depth - 1)
                if sub is not None:
                    items.append(["components", sub])
            rng.shuffle(items)
            out.append([alias, {"d": items}])
        # config-only children
        for _ in range(rng.choice([0, 0, 1, 1, 2])):
            j = rng.randrange(ncls)
            if rng.random() < 0.06:
                alias = gen_alias(rng, j, True, used)
                out.append([alias, {"d": [["type", rng.choice(BAD_TYPES)]]}])
                continue
            if rng.random() < 0.03:
                out.append([gen_alias(rng, j, True, used), {"o": "5"}])
                continue
            explicit = rng.random() < 0.55
            alias = gen_alias(rng, j, explicit, used)
            if not explicit and rng.random() < 0.3:
                out.append([alias, {"n": None}])
                continue
            items = to_cfg(gen_dict(rng, 2, 3, KW_KEYS))["d"]
            if explicit:
                items.append(["type", type_ref(rng, j)])
            sub = self._gen_external(rng, classes, j, depth - 1)
            if sub is not None:
                items.append(["components", sub])
            rng.shuffle(items)
            out.append([alias, {"d": items}])
        rng.shuffle(out)
        return {"d": out}

    @staticmethod
    def _class_of(ty: Any, alias: str) -> int | None:
        if isinstance(ty, str):
            ty = ty.split("/")[0]
            if ty.startswith("ep") and ty[2:].isdigit():
                return int(ty[2:])
            if ty.startswith("harness.impl.compmod:K"):
                return int(ty.rsplit("K", 1)[1].lstrip("D"))
            return None
        return getattr(ty, "n", None)

    # ---- implementation side
    def run_impl(self, case: dict[str, Any]) -> Any:
        import anyio

        from asphalt.core import ComponentStartError, Context, start_component

        from ..impl import compmod

        classes = {i: k for i, k in enumerate(compmod.CLASSES)}
        cls_ids = {k: i for i, k in classes.items()}
        # `module:KDn` names a class made for this very case (as reloading a plugin module, or a test suite patching
        # it, would rebind the attribute): a reference is resolved to what it denotes now
        def rebind() -> None:
            compmod.GENERATION += 1
            for i, k in classes.items():
                dyn = type(f"KD{i}", (k,), {"gen": compmod.GENERATION})
                setattr(compmod, f"KD{i}", dyn)
                cls_ids[dyn] = i

        rebind()
        compmod.TABLE = {}
        for c in case["classes"]:
            kids = []
            for alias, entry in c["children"]["d"]:
                d = from_cfg(entry, classes)
                ty = d.pop("type")
                kids.append((alias, None if ty == alias else ty, d))
            compmod.TABLE[c["id"]] = {"children": kids, "fails": c["fails"],
                                      "prepare_adds": c["prepare_adds"], "start_adds": c["start_adds"]}
        root_type = from_cfg(case["root_type"], classes)
        config = from_cfg(case["config"], classes)
        config0 = copy.deepcopy(config)

        async def once() -> dict[str, Any]:
            compmod.LOG.clear()
            compmod.INSTANCES.clear()
            out: dict[str, Any]
            try:
                async with Context() as ctx:
                    # what the components publish (resources and resource factories alike) is read off the
                    # resource_added events of the surrounding context
                    seen: list[tuple[Any, str]] = []
                    listening = anyio.Event()

                    async def listen() -> None:
                        async with ctx.resource_added.stream_events(max_queue_size=100000) as stream:
                            listening.set()
                            async for ev in stream:
                                seen.append((ev.resource_types[0], ev.resource_name))

                    failure: BaseException | None = None
                    async with anyio.create_task_group() as tg:
                        tg.start_soon(listen)
                        await listening.wait()
                        try:
                            await start_component(root_type, config, timeout=None)
                            await anyio.wait_all_tasks_blocked()
                        except Exception as e:  # noqa: BLE001 - re-raised as itself outside the harness's task group
                            failure = e
                        tg.cancel_scope.cancel()
                    if failure is not None:
                        raise failure
                    pubs = [[n for t, n in seen if t is inst.marker] for inst in compmod.INSTANCES]
                    for inst, names in zip(compmod.INSTANCES, pubs):
                        for n in names:      # … and every one of them can be looked up under that name
                            if ctx.get_resource_nowait(inst.marker, n, optional=True) is None:
                                names[names.index(n)] = n + "?missing"
                out = {"status": "ok", "published": pubs}
            except ComponentStartError as e:
                out = {"status": "err", "err": e.phase, "path": e.path, "cls": cls_ids.get(e.component_type, -1)}
            except LookupError:
                out = {"status": "err", "err": "configError"}
            except (TypeError, ValueError) as e:
                # a TypeError from building the tree: the declared type is not a Component subclass, or a child's
                # configuration is neither None nor a mapping (which of the two, and for which child, is only in
                # the wording of the message)
                # … - and which class an unusable configuration is rejected with is not the statement's business
                out = {"status": "err", "err": "configError"}
            out["log"] = [{"cls": e["cls"] if e["gen"] in (None, compmod.GENERATION) else -2,      # -2: a class of an earlier case
                           "kwargs": to_cfg(e["kwargs"], cls_ids)} for e in compmod.LOG]
            return out

        from ..impl import vclock

        first = vclock.run(once)
        unchanged = _deep_same(config, config0)
        rebind()        # (the second start must use what the references denote by then)
        second = vclock.run(once)
        first["config_unchanged"] = unchanged and _deep_same(config, config0)
        first["second_equal"] = (second == {k: v for k, v in first.items() if k in second})
        return first

    def model_request(self, case, impl):
        cfg = {"d": [["type", case["root_type"]]] + [kv for kv in case["config"]["d"] if kv[0] != "type"]}
        # `{"type": component_class, **config}`: a "type" key inside config replaces the value, keeps the position
        for k, v in case["config"]["d"]:
            if k == "type":
                cfg["d"][0] = ["type", v]
        return {"kind": "init", "classes": case["classes"], "resolve": case["resolve"], "cfg": cfg}

    def compare(self, case, impl, model):
        if "err" in model:
            if impl["status"] != "err":
                return f"model: error {model}; implementation started the tree"
            if model["err"] == "creating":
                ok = impl["err"] == "creating" and impl["path"] == model["path"] and impl["cls"] == model["cls"]
            elif model["err"] in ("lookupError", "notComponent", "badChildConfig"):
                ok = impl["err"] == "configError"
            else:
                ok = impl["err"] == model["err"] and impl["path"] == (model["path"] or "(root)")
            return None if ok else f"model: {model}; implementation: {impl}"
        if impl["status"] != "ok":
            return f"model: ok; implementation: {impl}"
        nodes = _preorder(model["tree"])
        mlog = [{"cls": n["cls"], "kwargs": n["kwargs"]} for n in nodes]
        if mlog != impl["log"]:
            return f"constructor order/kwargs differ: model {mlog} vs implementation {impl['log']}"
        mpub = [n["published"] for n in nodes]
        if mpub != impl["published"]:
            return f"published names differ: model {mpub} vs implementation {impl['published']}"
        return None

    def monitor(self, case, impl):
        fails = []
        exp = expected_by_statement(case)
        if exp is not None and impl["status"] == "ok":
            if [{"cls": c, "kwargs": k} for c, k, _ in exp] != impl["log"]:
                fails.append("constructor kwargs are not add_component() kwargs deep-merged with and overridden by "
                             "the external configuration (or components missing / in another order)")
            elif [p for _, _, p in exp] != impl["published"]:
                fails.append("resource names published by the components differ from the alias rule "
                             "(default -> name only in start())")
        elif exp is not None and impl["status"] != "ok":
            fails.append(f"a valid configuration failed to start: {impl.get('err')}")
        if not impl["config_unchanged"]:
            fails.append("start_component modified the configuration object it was given")
        if not impl["second_equal"]:
            fails.append("starting twice from the same configuration gave different trees")
        return fails

    def nontrivial(self, case, impl):
        return impl["status"] == "ok" and len(impl["log"]) >= 3 and "override" in self.features(case, impl) \
            and "slash_alias" in self.features(case, impl)

    def features(self, case, impl):
        f = ["outcome_" + (impl["err"] if impl["status"] == "err" else "ok"), f"components_{min(len(impl['log']), 9)}"]
        hard = {a for c in case["classes"] for a, _ in c["children"]["d"]}

        def walk(c: Any, depth: int) -> None:
            if "d" not in c:
                return
            for k, v in c["d"]:
                if k == "components" and "d" in v:
                    f.append(f"ext_depth_{depth}")
                    for alias, sub in v["d"]:
                        if alias in hard:
                            f.append("override")
                        else:
                            f.append("config_only")
                        if "/" in alias:
                            f.append("slash_alias")
                        if "n" in sub:
                            f.append("none_child")
                        walk(sub, depth + 1)

        walk(case["config"], 1)
        return sorted(set(f))

    def shrink(self, case) -> Iterator[dict[str, Any]]:
        from .c17 import _shrink_cfg

        for s in _shrink_cfg(case["config"]):
            yield {**case, "config": s}
        for i, c in enumerate(case["classes"]):
            for s in _shrink_cfg(c["children"]):
                cs = copy.deepcopy(case["classes"])
                cs[i]["children"] = s
                yield {**case, "classes": cs}
            for key in ("prepare_adds", "start_adds"):
                if c[key]:
                    cs = copy.deepcopy(case["classes"])
                    cs[i][key] = []
                    yield {**case, "classes": cs}


def expected_by_statement(case: dict[str, Any]) -> list[tuple[int, Any, list[str]]] | None:
    """The property statement, literally: expected (class, kwargs, published names) in construction order,
    or None when the configuration is invalid (errors are judged by the correspondence only)."""
    from .c17 import spec_merge

    classes = {c["id"]: c for c in case["classes"]}
    resolve = {k: v for k, v in case["resolve"]}
    log: list[tuple[int, Any, list[str]]] = []

    class Invalid(Exception):
        pass

    def res(ty: Any) -> int:
        if isinstance(ty, dict) and "c" in ty:
            return ty["c"]
        if isinstance(ty, dict) and "s" in ty and ty["s"] in resolve and resolve[ty["s"]] in classes:
            return resolve[ty["s"]]
        raise Invalid

    def visit(cid: int, config: list[list[Any]], dflt: str) -> None:
        c = classes[cid]
        if c["fails"]:
            raise Invalid
        kwargs = {"d": [kv for kv in config if kv[0] not in ("type", "components")]}
        names = list(c["prepare_adds"]) + [dflt if n == "default" else n for n in c["start_adds"]]
        log.append((cid, kwargs, names))
        ext = next((v for k, v in config if k == "components"), None)
        hard = from_cfg(c["children"])
        extd = from_cfg(ext) if ext is not None and "d" in ext else None
        if ext is not None and "d" not in ext and "n" not in ext:
            raise Invalid
        merged = spec_merge(hard, extd)
        for alias, cc in merged.items():
            if cc is None:
                cc = {}
            if not isinstance(cc, dict):
                raise Invalid
            cfg = to_cfg(cc)["d"]
            ty = next((v for k, v in cfg if k == "type"), {"s": alias})
            if "s" in ty:
                ty = {"s": ty["s"].split("/")[0]}
            visit(res(ty), cfg, alias.split("/", 1)[1] if "/" in alias else "default")

    try:
        root_ty = next((v for k, v in case["config"]["d"] if k == "type"), case["root_type"])
        visit(res(root_ty), case["config"]["d"], "default")
    except Invalid:
        return None
    return log


def _preorder(t: dict[str, Any]) -> list[dict[str, Any]]:
    out = [t]
    for c in t["children"]:
        out += _preorder(c)
    return out


def _deep_same(x: Any, y: Any) -> bool:
    if isinstance(x, dict):
        return isinstance(y, dict) and list(x) == list(y) and all(_deep_same(x[k], y[k]) for k in x)
    if isinstance(x, list):
        return isinstance(y, list) and len(x) == len(y) and all(_deep_same(a, b) for a, b in zip(x, y))
    return type(x) is type(y) and x == y


PROP = C14()
