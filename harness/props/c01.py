"""C01 — context teardown runs every callback exactly once, LIFO, one at a time."""
from ..kernel_prop import KernelProp


class C01(KernelProp):
    id = "C01"
    tags = ("C01",)
    quick_cases = 600
    thorough_cases = 40000
    n_ops = (10, 30)
    weights = {"new": 8, "enter": 10, "exit": 9, "add": 14, "addtd": 22, "addf": 3, "getnw": 4, "get": 2,
               "finish": 1, "getall": 1, "current": 1, "parent": 0, "spawn": 1, "state": 3}
    gen_kwargs = {"td_depth": 3, "malformed": 0.03, "wrong_state": 0.03, "many_callbacks": True, "exc_end": 0.5, "p_cancel": 0.2, "p_mid": 0.25, "p_comp": 0.25, "body_get": True}
    rule = ("operation sequences over <=8 contexts / 3 tasks on both back-ends with 0-12 teardown callbacks per context "
            "registered through add_teardown_callback, the module-level shortcut and add_resource(teardown_callback=), "
            "sync/async, with/without pass_exception, raising Exception/BaseException subclasses, registering further "
            "callbacks during teardown (3 levels), bodies that add/look up resources while closing; blocks ending by "
            "return, Exception, BaseException, or cancellation (20% of exits: a cancel scope around the block is "
            "cancelled; async callbacks are then invoked and cancelled at their first checkpoint), and a quarter of the other exits "
            "with the scope cancelled while a directly registered asynchronous callback is running (it has done its work and "
            "is suspended; it and every asynchronous callback after it end cancelled). Non-trivial: some context is left with >=3 callbacks of which at least "
            "one raises, registers during teardown or is async")
    assumptions = ["cancellation is generated as the way the block ends or as arriving during a directly registered asynchronous "
                   "callback (after its work); cancellation during a synchronous callback or one registered during the "
                   "teardown, and shielded callbacks, are not generated",
                   "when every exception reaching the caller is a cancellation, their number and nesting are the "
                   "back-end's (compared as one token)",
                   "sys.exc_info() inside __aexit__ being the block's exception is CPython's"]

    def nontrivial(self, case, impl):
        regs: dict[int, list] = {}
        for op, r in zip(case["ops"], impl):
            if op["op"] == "addtd" and r["res"][:1] == ["ok"]:
                regs.setdefault(op["c"], []).append(op["cb"])
            elif op["op"] == "add" and op.get("td") and r["res"][:1] == ["ok"]:
                regs.setdefault(op["c"], []).append(op["td"])
            elif op["op"] == "exit":
                cbs = regs.get(op["c"], [])
                if len(cbs) >= 3 and any(cb["raises"] or cb["regs"] or cb["async"] for cb in cbs):
                    return True
        return False


PROP = C01()
