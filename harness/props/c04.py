"""C04 — factory-generated resources are per-context singletons of the requesting context."""
from ..core import Composite
from ..kernel_prop import KernelProp
from .c18 import C18NoneProduct


class C04Kernel(KernelProp):
    id = "C04"
    tags = ("C04",)
    quick_cases = 800
    thorough_cases = 40000
    n_ops = (12, 45)
    weights = {"new": 10, "cancelget": 5, "enter": 10, "exit": 3, "add": 8, "addf": 16, "getnw": 16, "get": 22, "finish": 10,
               "getall": 6, "addtd": 0, "current": 0, "parent": 0, "spawn": 3, "state": 0, "inject": 9}
    gen_kwargs = {"max_ctx": 6, "malformed": 0.01, "wrong_state": 0.02, "gated": 0.45, "exc_end": 0.1, "p_comp": 0.2, "p_pair": 0.7, "body_get": True}
    rule = ("sync / async / suspended (gated) factories with 1-3 types and failing first calls, looked up through "
            "get_resource, get_resource_nowait, inject and the shortcuts from up to 3 tasks; lookups racing with a "
            "generation in flight on the same and on other types of the factory; children created before and after a "
            "generation; static resources taking one of a factory's pairs before or during a generation. Non-trivial: "
            "a generation followed by a child creation or by a second lookup through another API, type or task")
    assumptions = ["which waiting lookup runs first after a failed generation is the scheduler's choice; it is taken from "
                   "the observation (the model accepts any waiter)"]

    def nontrivial(self, case, impl):
        gen_at = None
        for i, (op, r) in enumerate(zip(case["ops"], impl)):
            if any(s.startswith("val g") or " [val g" in s for s in r["res"]):
                if gen_at is None:
                    gen_at = i
                elif i > gen_at:
                    return True
            if gen_at is not None and op["op"] == "new" and i > gen_at:
                return True
        return False


class C04NoneProduct(C18NoneProduct):
    """A factory whose product is `None`: still called once per context, however often and through whichever API the
    resource is looked up afterwards. (Observed directly: in the kernel model every product has an identity.)"""
    id = "C04"
    tags = ("C04",)


class C04(Composite):
    id = "C04"
    quick_cases = C04Kernel.quick_cases
    thorough_cases = C04Kernel.thorough_cases
    parts = [(15, C04Kernel()), (1, C04NoneProduct())]
    rule = C04Kernel.rule + "; one case in sixteen has a factory whose product is None, looked up 2-5 times: one call"
    assumptions = C04Kernel.assumptions


PROP = C04()
