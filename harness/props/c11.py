"""C11 — every (instance, signal attribute) pair is an independent channel (mode E)."""

from __future__ import annotations

from typing import Any

from .c10 import SigProp, monitor_delivery, stream_windows


class C11(SigProp):
    id = "C11"
    quick_cases = 500
    thorough_cases = 30000
    gen_kwargs = {"many_attrs": True, "p_burst": 0.1, "caps": [2, 50, 50]}
    n_ops = (8, 35)
    rule = ("generated owner classes with 2-4 Signal attributes, inheritance (signals on base and subclass, overridden "
            "attributes), different event classes and subclasses of them, 1-4 instances, every order of first access, "
            "repeated accesses; dispatch / stream / wait histories over the resulting channels; use through the class; "
            "owners dropped and garbage-collected at the end with bound signals and streams still around. "
            "Non-trivial: >=2 attributes accessed on one instance and a dispatch delivered to a subscriber")
    assumptions = ["weak referencing / garbage collection is CPython's: 'binding never keeps the owner alive' is decided on the "
                   "implementation only (weakref dead after del + gc.collect())",
                   "which declaration an attribute resolves to along the MRO is Python's (given to the model)"]

    def exhaustive(self, tier: str):
        """An instance is dropped and collected, then a new instance of the class is made (CPython usually gives it
        the same address) and is the next to touch the attribute the dead one touched last: a new instance, a new
        channel - nothing of the old one's."""
        cases = []
        for backend in ("asyncio", "trio"):
            for nattr in (1, 2):
                for subscribe in (False, True):
                    for rep in range(3):
                        sigs = {a: 0 for a in ["sa", "sb"][:nattr]}
                        ops = [{"op": "access", "inst": 0, "attr": a, "evcls": 0} for a in sigs]
                        if subscribe:
                            ops.append({"op": "subscribe", "s": 0, "chans": [len(sigs) - 1], "filter": {"k": "all"}, "cap": 50})
                        last = list(sigs)[-1]
                        ops += [{"op": "access", "inst": 1, "attr": last, "evcls": 0},
                                {"op": "dispatch", "chan": len(sigs), "cls": 0, "n": 1}]
                        if subscribe:
                            ops.append({"op": "leave", "s": 0})
                        cases.append({"kind": "sig", "nevcls": 1, "evparents": [], "backend": backend,
                                      "classes": [{"name": "O0", "base": None, "signals": sigs, "falsy": False}],
                                      "instances": [0, 0], "copies": {}, "reborn": {"1": 0}, "ops": ops,
                                      "origin": f"reborn:{nattr}:{subscribe}:{rep}"})
        # nobody holds the owner any more but streams / wait_event() calls are still listening to its signals
        for backend in ("asyncio", "trio"):
            for how in ("subscribe", "wait"):
                for ninst in (1, 2):
                    for nattr in (1, 2):
                        attrs = ["sa", "sb"][:nattr]
                        ops = [{"op": "access", "inst": n, "attr": a, "evcls": 0} for n in range(ninst) for a in attrs]
                        ops.append({"op": how, "s": 0, "chans": list(range(len(ops))), "filter": {"k": "all"}, "cap": 50})
                        cases.append({"kind": "sig", "nevcls": 1, "evparents": [], "backend": backend,
                                      "classes": [{"name": "O0", "base": None, "signals": {a: 0 for a in attrs}, "falsy": False}],
                                      "instances": [0] * ninst, "copies": {}, "reborn": {}, "ops": ops,
                                      "origin": f"listened:{how}:{ninst}:{nattr}"})
        return cases

    def monitor(self, case, impl):
        fails = []
        seen: dict[tuple[int, str], str] = {}
        owner: dict[str, tuple[int, str]] = {}
        for op, out in zip(case["ops"], impl["out"]):
            if op["op"] == "access":
                key = (op["inst"], op["attr"])
                ch = out[0]
                if key in seen and seen[key] != ch:
                    fails.append(f"accessing {key} twice gave two different bound signals")
                seen[key] = ch
                if ch in owner and owner[ch] != key:
                    a, b = owner[ch], key
                    if a[0] != b[0] and a[1] == b[1]:
                        fails.append(f"distinct_instances_distinct_channels: instances {a[0]} and {b[0]} share the bound signal of {a[1]!r}")
                    else:
                        fails.append(f"attributes {a} and {b} share one bound signal")
                owner.setdefault(ch, key)
            elif op["op"] == "accessClass" and out != ["unbound"]:
                fails.append(f"using a signal through the class did not raise UnboundSignal: {out}")
            elif op["op"] in ("subscribe", "wait") and op.get("unbound") and out[:1] != ["unbound"]:
                fails.append(f"listening to a list of signals one of which is used through the class did not raise "
                             f"UnboundSignal: {out} {[f for f in impl['flags'] if f.startswith('stream %d:' % op['s'])]}")
            elif op["op"] == "dispatch" and op["chan"] is None and out != ["unbound"]:
                fails.append(f"dispatch through the class did not raise UnboundSignal: {out}")
            elif op["op"] == "dispatch" and op["chan"] is not None:
                from .c10 import is_sub

                # the declared class of the channel
                # channel numbers follow the order of first access (the case's own numbering)
                firsts: list[int] = []
                keys: list[tuple[int, str]] = []
                for o in case["ops"]:
                    if o["op"] == "access" and (o["inst"], o["attr"]) not in keys:
                        keys.append((o["inst"], o["attr"]))
                        firsts.append(o["evcls"])
                if op["chan"] >= len(firsts):
                    continue
                decl = firsts[op["chan"]]
                ok = is_sub(case["evparents"], op["cls"], decl)
                if ok and out[:1] != ["ok"]:
                    fails.append(f"an event of a matching class was rejected on channel {op['chan']}: {out}")
                if not ok and out != ["typeError"]:
                    fails.append(f"an event of the wrong class was not rejected with TypeError on channel {op['chan']}: {out}")
        for f in impl["flags"]:
            if "carries" in f or "were not collected while" in f or "wrong source" in f:
                # (… an event carries the instance and the attribute name of the channel it was dispatched through)
                fails.append(f)
        if impl["owners_alive_after_gc"]:
            fails.append(f"{impl['owners_alive_after_gc']} owner instance(s) still alive after del + gc.collect(): binding keeps owners alive")
        # isolation: delivered only to the channel's own subscribers
        fails += [f for f in monitor_delivery(case, impl) if "not dispatched on its signals" in f]
        return ["[C11] " + f for f in fails]

    def known(self, case, impl, failure):
        if "distinct_instances_distinct_channels" in failure:
            # classifier of D8: the two instances compare equal
            vals = case.get("values", {})
            cls_eq = [c.get("eq") for c in case["classes"]]
            import re

            m = re.search(r"instances (\d+) and (\d+)", failure)
            if m:
                a, b = int(m.group(1)), int(m.group(2))
                same_cls = case["instances"][a] == case["instances"][b]
                if same_cls and cls_eq[case["instances"][a]] and vals.get(str(a), a) == vals.get(str(b), b):
                    return "D8"
        return None

    def nontrivial(self, case, impl):
        per_inst: dict[int, set[str]] = {}
        for op in case["ops"]:
            if op["op"] == "access":
                per_inst.setdefault(op["inst"], set()).add(op["attr"])
        return any(len(v) >= 2 for v in per_inst.values()) and any(v for v in impl["delivered"].values())

    def features(self, case, impl):
        f = {"backend_" + case["backend"], f"instances_{len(case['instances'])}",
             "inheritance" if any(c["base"] is not None for c in case["classes"]) else "flat"}
        for op, out in zip(case["ops"], impl["out"]):
            f.add(op["op"] + ":" + (out[0].split(" ")[0] if out else "-"))
        return sorted(f)


PROP = C11()
