"""C06 — waiting for a resource during startup has no lost or false wake-ups."""
from ..startup_prop import StartupProp


class C06(StartupProp):
    id = "C06"
    tags = ("C06",)
    quick_cases = 400
    thorough_cases = 20000
    gen_kwargs = {"max_nodes": 8, "max_depth": 3, "p_await": 0.9, "p_burst": 0.2, "p_busy": 0.12, "p_stuck": 0.05, "p_opt": 0.15,
                  "p_factory": 0.25, "p_delay_pub": 0.6, "min_nodes": 3, "p_act_await": 0.4}
    rule = ("1-5 waiting components x 1-5 publishing components in trees of <=8 nodes; publication before / in the same "
            "instant as / after the request (tick delays 0/1/2/3/5), non-matching publications (same name other type, "
            "same type other name), factories, kind/name aliases remapping `default`, optional lookups, bursts of "
            "10-120 unrelated publications inside one atomic section before the wanted one (the D6 class), keys nobody "
            "publishes (must time out). Non-trivial: a waiter that actually blocked (returned later than it asked)")
    assumptions = ["'miss -> subscribe -> look again' containing no checkpoint is an assumption about the code between "
                   "checkpoints; the tick-delay sweeps and trio's scheduler randomisation are what look for violations"]

    def nontrivial(self, case, impl):
        return "waiter_blocked" in self.features(case, impl)


PROP = C06()
