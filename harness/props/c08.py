"""C08 — service tasks are stopped at teardown before anything they may depend on (mode T)."""

from __future__ import annotations

import copy
import random
from typing import Any, Iterator

from ..core import Prop


def gen_prog(rng: random.Random, *, crash: float = 0.08) -> dict[str, Any]:
    prog: list[dict[str, Any]] = []
    n_cb = n_task = n_res = n_late = 0
    for _ in range(rng.randint(1, 9)):
        r = rng.random()
        if r < 0.4:
            n_cb += 1
            prog.append({"op": "reg", "id": n_cb, "raises": rng.randrange(3) if rng.random() < 0.15 else None,
                         "async": rng.random() < 0.4, "via": rng.choice(["direct", "direct", "resource"])})
            if rng.random() < 0.15:
                # this callback starts a service task of its own while the owner is being torn down
                n_late += 1
                a = rng.random()
                action: Any = "cancel" if a < 0.5 else "none" if a < 0.65 else \
                    {"raises": rng.random() < 0.3, "async": rng.random() < 0.5, "kind": rng.choice(["fn", "method", "obj", "partialobj"])}
                beh: dict[str, Any] = {"ends": rng.choice([0, 1, 3]), "exc": None} if action == "none" or rng.random() < 0.3 \
                    else {"until": rng.choice([0, 1, 2])}
                prog[-1]["async"] = True
                prog[-1]["late"] = {"tid": 50 + n_late, "action": action, "beh": beh, "close_ticks": rng.choice([0, 0, 1])}
        elif r < 0.55:
            n_res += 1
            prog.append({"op": "res", "v": n_res})
        elif r < 0.65:
            prog.append({"op": "tick", "d": rng.choice([0, 1, 2])})
        elif n_task < 4:
            n_task += 1
            a = rng.random()
            if a < 0.4:
                action = "cancel"
            elif a < 0.6:
                action = "none"
            else:
                # "kind": a plain function / a functools.partial / a bound method / a callable object (possibly falsy)
                action = {"raises": rng.random() < 0.3, "async": rng.random() < 0.5,
                          "kind": rng.choice(["fn", "fn", "partial", "method", "obj", "falsyobj", "partialobj"])}
            if action == "none":
                beh = {"ends": rng.choice([0, 1, 3, 6, 9]), "exc": None}
            elif rng.random() < 0.3:
                beh = {"ends": rng.choice([0, 1, 3, 6, 9]), "exc": None}
            else:
                beh = {"until": rng.choice([0, 0, 1, 2, 3])}
                if rng.random() < crash:
                    beh["excOnCancel"] = rng.randrange(3)       # its clean-up after a cancellation raises
            if "ends" in beh and rng.random() < crash:
                beh["exc"] = rng.randrange(3)
            prog.append({"op": "start", "tid": n_task, "action": action, "beh": beh, "from_nested": rng.random() < 0.3,
                         "close_ticks": rng.choice([0, 0, 1, 2])})
            if rng.random() < 0.2:
                n_cb += 1
                prog[-1]["pre_reg"] = 100 + n_cb        # registered by the task itself before task_status.started()
                if rng.random() < 0.4 and not prog[-1]["from_nested"]:
                    prog[-1]["cancel_at_start"] = True  # … and the caller's scope is cancelled as it reports started()
    if any(st["op"] == "start" and st["beh"].get("exc") is not None for st in prog):
        # once a task has crashed the rest is cancelled by the task group; what anyio does with the exception of a
        # task that is cancelled while it is still being started is outside the statement: no second source of
        # exceptions in crash programs
        for st in prog:
            if st["op"] == "start":
                st["beh"].pop("excOnCancel", None)
    return {"kind": "tasks", "prog": prog, "exit_at": rng.choice([0, 1, 2, 4, 7]), "nested": rng.random() < 0.4,
            "via_component": rng.random() < 0.3}


def expand(prog: list[dict[str, Any]]) -> list[dict[str, Any]]:
    """A service task that registers a teardown callback on its owner before reporting that it has started:
    for the owner's teardown stack that is a registration followed by the start."""
    out = []
    for st in prog:
        if st["op"] == "start" and st.get("pre_reg") is not None:
            out.append({"op": "reg", "id": st["pre_reg"], "raises": None})
        out.append(st)
        if st["op"] == "reg" and st.get("late") is not None:
            # a callback that starts a service task during the teardown: the callback, and a task started late
            out.append({"op": "start", "late": True, "cb": st["id"], **st["late"]})
    return out


class C08(Prop):
    id = "C08"
    kinds = ("tasks",)
    tags: tuple[str, ...] = ("C08",)
    crash = 0.08
    quick_cases = 500
    thorough_cases = 20000
    rule = ("0-4 service tasks interleaved with 0-6 teardown callbacks (direct / add_resource(teardown_callback=), sync / "
            "async, some raising) and resources, in root and nested contexts; teardown_action cancel / None / sync or "
            "async callable (raising or not); 15% of the callbacks start a service task of their own while the owner is "
            "being torn down; task behaviours: ends by itself after 0-9 ticks, runs until stopped, "
            "needs 0-3 ticks of shielded clean-up after cancellation, crashes; block left after 0-7 ticks; both "
            "back-ends. Non-trivial: a callback registered before and one after some task, and that task still running "
            "when teardown begins")
    assumptions = ["delivery of cancellation into the task and TaskGroup.start are anyio's",
                   "a teardown that is itself cancelled (after a task crash) is outside the statement: only 'the exception "
                   "surfaces' is required then"]

    def generate(self, rng: random.Random, tier: str, index: int) -> dict[str, Any]:
        case = gen_prog(rng, crash=self.crash)
        case["backend"] = ("asyncio", "trio")[index % 2]
        return case

    def run_impl(self, case):
        from ..impl.tasks import run_tasks_case

        return run_tasks_case(case)

    def model_request(self, case, impl):
        return {"kind": "tasks", "prog": expand(case["prog"]),
                "trace": [e["l"] for e in impl["trace"] if e["l"][0] != "probeFailed"]}

    def compare(self, case, impl, model):
        if impl["hang"]:
            return "the run did not finish (teardown waits for ever)"
        if impl["other_exception"]:
            return f"unexpected exception surfaced: {impl['other_exception']}"
        if not model["accepted"]:
            tr = [e["l"] for e in impl["trace"]]
            return f"the observed trace is not a run of the model: label #{model['at']} not enabled: {tr[max(0, model['at'] - 5): model['at'] + 2]}"
        if not model["reported"]:
            return "no outcome was reported"
        if not model["crashed"] and (model["stack"] or model["open"]):
            return f"after the block was left the model still has {model['stack']} teardown items / open tasks {model['open']}"
        return None

    def monitor(self, case, impl):
        fails = []
        labels = [e["l"] for e in impl["trace"] if e["l"][0] != "probeFailed"]
        prog = expand(case["prog"])
        for e in impl["trace"]:
            if e["l"][0] == "probeFailed" and set((e["l"][3] if len(e["l"]) > 3 else "C08").split(",")) & set(self.tags):
                fails.append(f"task {e['l'][1]}: {e['l'][2]}")
        if self.tags != ("C08",):
            return [f"[{self.id}] " + f for f in fails]
        crashed = any(l[0] == "taskEnded" and l[2] is not None for l in labels)
        out = next((l[1] for l in labels if l[0] == "outcome"), None)
        if impl["hang"]:
            fails.append("teardown never finished")
        if crashed:
            for l in labels:
                if l[0] == "taskEnded" and l[2] is not None and (out is None or l[2] not in out):
                    fails.append(f"exception {l[2]} escaping service task {l[1]} vanished: the caller saw {out}")
            return ["[C08] " + f for f in fails]

        def pos(l: list[Any]) -> int | None:
            return next((k for k, x in enumerate(labels) if x == l), None)

        order = [s for s in prog if s["op"] in ("reg", "start")]
        bl = pos(["blockLeft"])
        for k, s in enumerate(order):
            if s["op"] != "start":
                continue
            closed = pos(["taskClosed", s["tid"]])
            if closed is None or (bl is not None and closed > bl):
                fails.append(f"service task {s['tid']} (or its context) was still running after the block had been left")
            # (a task started by a teardown callback: everything registered before *that callback* is earlier)
            for e in order[:k - 1] if s.get("late") else order[:k]:
                if e["op"] == "reg":
                    c = pos(["cbRun", e["id"]])
                    if c is not None and (closed is None or closed > c):
                        fails.append(f"teardown callback {e['id']} (registered before task {s['tid']} was started) ran "
                                     f"before the task and its context had finished")
            a = s["action"]
            seen_cancel = pos(["cancelSeen", s["tid"]]) is not None
            called = sum(1 for l in labels if l == ["actionCalled", s["tid"]])
            if a == "none" and seen_cancel:
                fails.append(f"task {s['tid']} with teardown_action=None was cancelled")
            if isinstance(a, dict):
                if not a["raises"] and seen_cancel:
                    fails.append(f"task {s['tid']} was cancelled although its teardown callable succeeded")
                if called != 1:
                    fails.append(f"teardown callable of task {s['tid']} was called {called} times")
            elif called:
                fails.append(f"a teardown callable was called for task {s['tid']} which has none")
            # snapshot of the owner's resources at start
            want = [x["v"] for x in (prog if s.get("late") else prog[:prog.index(s)]) if x["op"] == "res"]
            for l in labels:
                if l[0] == "taskSaw" and l[1] == s["tid"] and l[2] != sorted(want):
                    fails.append(f"task {s['tid']} sees resources {l[2]}; present when it was started: {sorted(want)}")
        regs = [s["id"] for s in order if s["op"] == "reg"]
        ran = [l[1] for l in labels if l[0] == "cbRun"]
        if ran != list(reversed(regs)):
            fails.append(f"teardown callbacks {regs} ran as {ran}")
        want_out = [s["raises"] for s in reversed(order) if s["op"] == "reg" and s["raises"] is not None]
        if out != want_out:
            fails.append(f"the caller saw exceptions {out}, the callbacks raised {want_out}")
        return ["[C08] " + f for f in dict.fromkeys(fails)]

    def nontrivial(self, case, impl):
        order = [s for s in case["prog"] if s["op"] in ("reg", "start")]
        labels = [e["l"] for e in impl["trace"]]
        eb = next((k for k, l in enumerate(labels) if l[0] == "exitBegin"), None)
        for k, s in enumerate(order):
            if s["op"] == "start" and any(e["op"] == "reg" for e in order[:k]) and any(e["op"] == "reg" for e in order[k + 1:]):
                ended = next((n for n, l in enumerate(labels) if l[:2] == ["taskEnded", s["tid"]]), None)
                if eb is not None and ended is not None and ended > eb:
                    return True
        return False

    def features(self, case, impl):
        f = {"backend_" + case["backend"], "nested" if case["nested"] else "root"}
        for s in case["prog"]:
            if s["op"] == "start":
                a = s["action"]
                f.add("action_" + (a if isinstance(a, str) else ("callable_raising" if a["raises"] else "callable")))
                f.add("beh_" + ("until" if "until" in s["beh"] else ("crash" if s["beh"].get("exc") is not None else "ends")))
        for e in impl["trace"]:
            f.add("label_" + e["l"][0])
        return sorted(f)

    def shrink(self, case) -> Iterator[dict[str, Any]]:
        prog = case["prog"]
        for i in reversed(range(len(prog))):
            yield {**case, "prog": prog[:i] + prog[i + 1:]}
        if case["exit_at"]:
            yield {**case, "exit_at": 0}
        if case["nested"]:
            yield {**case, "nested": False}
        if case["backend"] == "trio":
            yield {**case, "backend": "asyncio"}


PROP = C08()
