"""Seeded, stateful generator of Context-kernel operation sequences (C01-C04, C12, C13, C18, C19)."""

from __future__ import annotations

import random
from typing import Any

NAMES = ["default", "a", "b_1"]
BAD_NAMES = ["", "a b", "x:y", "a.b", "a-b"]
NT = 4

DEFAULT_WEIGHTS = {
    "new": 10, "enter": 10, "exit": 7, "add": 16, "addf": 9, "getnw": 14, "get": 10, "finish": 4,
    "getall": 5, "addtd": 6, "current": 3, "parent": 1, "spawn": 2, "state": 3, "inject": 0, "decorate": 0,
    "cancelget": 0,
}
FORMS_PLAIN = ["plain", "str"]
FORMS_OPT = ["optional", "pep604", "str604", "union", "optstr", "unionstr", "stropt", "str604b"]


class KGen:
    def __init__(self, rng: random.Random, weights: dict[str, float] | None = None, *,
                 malformed: float = 0.06, wrong_state: float = 0.08, max_ctx: int = 8, max_tasks: int = 3,
                 td_depth: int = 2, gated: float = 0.35, exc_end: float = 0.4, many_callbacks: bool = False,
                 p_cancel: float = 0.0, p_pair: float = 0.25, p_manual: float = 0.0, p_mid: float = 0.0,
                 p_cur_after: float = 0.0, p_defer: float = 0.0, p_again: float = 0.0, p_forget: float = 0.0,
                 p_comp: float = 0.0, body_get: bool = False) -> None:
        self.body_get = body_get
        self.rng = rng
        self.w = dict(DEFAULT_WEIGHTS)
        if weights:
            self.w.update(weights)
        self.malformed = malformed
        self.wrong_state = wrong_state
        self.max_ctx = max_ctx
        self.max_tasks = max_tasks
        self.td_depth = td_depth
        self.gated = gated
        self.exc_end = exc_end
        self.p_cancel = p_cancel
        self.p_mid = p_mid
        self.p_cur_after = p_cur_after
        self.p_defer = p_defer
        self.p_again = p_again
        self.p_forget = p_forget
        self.p_comp = p_comp
        self.injects: list[dict[str, Any]] = []     # injected calls made so far (their functions can be called again)
        self.n_fns = 0
        self.deferred: list[list[Any]] = []      # [countdown, resume op] of lookups whose coroutine is awaited later
        self.queue: list[dict[str, Any]] = []
        self.p_pair = p_pair
        self.p_manual = p_manual
        self.n_pairs = 0
        self.many_callbacks = many_callbacks
        self.ctxs: dict[int, dict[str, Any]] = {}
        self.stacks: dict[int, list[int]] = {0: []}      # per task: entered contexts, innermost last
        self.cur: dict[int, int | None] = {0: None}
        self.next_val = 1
        self.next_fid = 1
        self.next_cb = 1
        self.gated_facs: set[tuple[int, int]] = set()      # (ctx, fid) of gated factories that were looked up
        self.n_gets = 0
        self.ops: list[dict[str, Any]] = []

    # -------------------------------------------------------------- helpers
    def pick_ctx(self, want: tuple[str, ...] = ("open",)) -> int | None:
        rng = self.rng
        if not self.ctxs:
            return None
        if rng.random() < self.wrong_state:
            return rng.choice(list(self.ctxs))
        good = [c for c, x in self.ctxs.items() if x["state"] in want or (x["state"] == "leaked" and "open" in want)]
        return rng.choice(good) if good else None

    def types(self) -> list[int]:
        rng = self.rng
        n = rng.choice([1, 1, 1, 2, 2, 3])
        return rng.sample(range(NT), n)

    def name(self) -> str:
        return self.rng.choice(NAMES)

    def exc(self) -> dict[str, Any]:
        rng = self.rng
        return {"k": "exn", "n": rng.randrange(4)} if rng.random() < 0.7 else {"k": "base", "n": rng.randrange(3)}

    def cb(self, depth: int | None = None) -> dict[str, Any]:
        rng = self.rng
        depth = self.td_depth if depth is None else depth
        body = []
        for _ in range(rng.choice([0, 0, 0, 1, 1, 2])):
            r = rng.random()
            if r < 0.35:
                body.append({"op": "getnw", "ty": rng.randrange(NT), "name": self.name(), "opt": rng.random() < 0.5})
            elif r < 0.65:
                v = self.next_val
                self.next_val += 1
                body.append({"op": "add", "types": self.types(), "name": self.name(), "v": v})
            elif r < 0.8:
                fid = self.next_fid
                self.next_fid += 1
                body.append({"op": "addf", "types": self.types(), "name": self.name(), "fid": fid})
            else:
                body.append({"op": "current"})
        regs = []
        if depth > 0:
            for _ in range(rng.choice([0, 0, 0, 1, 1, 2])):
                regs.append(self.cb(depth - 1))
        cid = self.next_cb
        self.next_cb += 1
        cb = {"id": cid, "pass": rng.random() < 0.5, "async": rng.random() < 0.4, "body": body, "regs": regs,
              "raises": self.exc() if rng.random() < 0.3 else None}
        if cb["pass"] and cb["raises"] is None and rng.random() < 0.25:
            cb["reraise"] = True        # raises the very exception object it is handed (nothing after a clean exit)
        return cb

    def awaited_lookups(self, cb: dict[str, Any], c: int) -> None:
        """Asynchronous callbacks (registered directly) *await* half of their lookups - preferably of something an
        asynchronous factory of the context has yet to make. (No random draws: the rest of the case stays as it was.)
        A factory that suspends would suspend the teardown in the middle of a callback: not generated."""
        if not self.body_get or c not in self.ctxs:
            return
        x = self.ctxs[c]
        if cb["async"]:
            for n, b in enumerate(cb["body"]):
                if b["op"] == "getnw" and (cb["id"] + n) % 2 == 0:
                    af = x.get("afac_keys", [])
                    if af and cb["id"] % 3:
                        b["ty"], b["name"] = af[(cb["id"] + n) % len(af)]
                    if (b["ty"], b["name"]) not in x.get("gated_keys", ()):
                        b["op"] = "get"
                        x.setdefault("body_get_keys", set()).add((b["ty"], b["name"]))
        for r in cb["regs"]:
            self.awaited_lookups(r, c)

    def task(self) -> int:
        return self.rng.choice(list(self.stacks))

    def via(self, t: int, c: int) -> str:
        p = 0.8 if self.ctxs.get(c, {}).get("comp") else 0.5      # (the module-level functions are what components use)
        return "shortcut" if self.cur.get(t) == c and self.rng.random() < p else "method"

    def in_comp(self, t: int) -> bool:
        c = self.cur.get(t)
        return c is not None and bool(self.ctxs[c].get("comp"))

    # -------------------------------------------------------------- op generators
    def gen_op(self) -> dict[str, Any] | None:
        rng = self.rng
        kind = rng.choices(list(self.w), list(self.w.values()))[0]
        t = self.task()
        if kind == "new":
            if len(self.ctxs) >= self.max_ctx:
                return None
            c = len(self.ctxs) + 1
            parent = None
            # a never-entered root context has no task group yet: Context(parent) would fail with
            # AttributeError (constructor misuse outside every property) - not generated
            ok_parents = [p for p, x in self.ctxs.items() if x["parent"] is not None or x["state"] != "inactive"]
            if ok_parents and rng.random() < 0.45:
                parent = rng.choice(ok_parents)
            eff = parent if parent is not None else self.cur.get(t)
            self.ctxs[c] = {"state": "inactive", "parent": eff,
                            "keys": list(self.ctxs[eff]["keys"]) if eff is not None else [],
                            "gated_keys": set(self.ctxs[eff].get("gated_keys", ())) if eff is not None else set(),
                            "afac_keys": list(self.ctxs[eff].get("afac_keys", ())) if eff is not None else []}
            return {"op": "new", "t": t, "c": c, "parent": parent}
        if kind == "enter":
            cands = [c for c, x in self.ctxs.items() if x["state"] == "inactive"]
            if rng.random() < self.wrong_state or not cands:
                cands = list(self.ctxs)
            if not cands:
                return None
            c = rng.choice(cands)
            x = self.ctxs[c]
            if x["state"] == "inactive":
                x["state"] = "open"
                x["token"] = self.cur.get(t)
                self.stacks[t].append(c)
                self.cur[t] = c
                if x["parent"] is not None and rng.random() < self.p_manual and not self.ctxs.get(x["token"], {}).get("comp"):
                    # entered by hand and never left (the block around it, if any, is left while it is still
                    # this task's current context)
                    self.stacks[t].pop()
                    x["state"] = "leaked"
                    return {"op": "enter", "t": t, "c": c, "manual": True}
                if rng.random() < self.p_cancel * 0.4:
                    # entered while a cancellation is already pending: the block is left at once, by
                    # that cancellation (delivered at its first checkpoint)
                    ex = self.exit_op(t)
                    ex["end"] = {"k": "cancelled"}
                    self.queue.append(ex)
                    return {"op": "enter", "t": t, "c": c, "pre": True}
                if rng.random() < self.p_comp:
                    # what the task does inside this block it does from a component's start(): its current context is
                    # the component's own context, which hands every call on to the context of the block
                    x["comp"] = True
                    # … the root component of its tree, or a child deployed under an alias with a resource name
                    # ("frame/alt": what it publishes as "default" from start() is named "alt")
                    return {"op": "enter", "t": t, "c": c, "comp": rng.choice([True, "alias"])}
            return {"op": "enter", "t": t, "c": c}
        if kind == "exit":
            ts = [t for t, s in self.stacks.items() if s]
            if not ts:
                return None
            t = rng.choice(ts)
            return self.exit_op(t)
        if kind == "add":
            c = self.pick_ctx(("open",))
            if c is None:
                return None
            v = self.next_val
            self.next_val += 1
            op: dict[str, Any] = {"op": "add", "t": t, "c": c, "types": self.types() if rng.random() < 0.8 else [],
                                  "vt": rng.randrange(NT), "name": self.name(), "val": v,
                                  "desc": rng.choice([None, None, "d1"]), "badType": False, "badPos": rng.random() < 0.5,
                                  "single": rng.random() < 0.5, "td": None, "tdBad": False, "via": self.via(t, c)}
            for ty in (op["types"] or [op["vt"]]):
                self.ctxs[c]["keys"].append((ty, op["name"]))
            if rng.random() < 0.3 or self.many_callbacks:
                op["td"] = self.cb()
                op["td"]["pass"] = False
                self.awaited_lookups(op["td"], c)
            if rng.random() < self.malformed and self.ctxs[c]["state"] == "open":   # (one reason to fail at a time)
                m = rng.choice(["name", "none", "type", "td"])
                if m == "name":
                    op["name"] = rng.choice(BAD_NAMES)
                elif m == "none":
                    op["val"] = None
                elif m == "type":
                    op["badType"] = True
                    if not op["types"]:
                        op["types"] = self.types()
                else:
                    op["tdBad"] = True
                    op["td"] = None
            return op
        if kind == "addf":
            c = self.pick_ctx(("open",))
            if c is None:
                return None
            fid = self.next_fid
            self.next_fid += 1
            is_async = rng.random() < 0.5
            op = {"op": "addf", "t": t, "c": c, "types": self.types(), "name": self.name(), "fid": fid,
                  "desc": rng.choice([None, None, "fd"]), "async": is_async,
                  "gated": is_async and rng.random() < self.gated, "failFirst": rng.choice([0, 0, 0, 0, 1, 2]),
                  "noneIn": False, "annot": rng.random() < 0.3, "single": rng.random() < 0.5, "via": self.via(t, c)}
            for ty in op["types"]:
                self.ctxs[c]["keys"].append((ty, op["name"]))
            if op["gated"] and any((ty, op["name"]) in self.ctxs[c].get("body_get_keys", ()) for ty in op["types"]):
                op["gated"] = False     # (a teardown callback of this context awaits this pair: see awaited_lookups)
            if is_async and not op["gated"]:
                self.ctxs[c].setdefault("afac_keys", []).extend((ty, op["name"]) for ty in op["types"])
            if rng.random() < self.malformed and self.ctxs[c]["state"] == "open":   # (one reason to fail at a time)
                m = rng.choice(["name", "none", "empty"])
                if m == "name":
                    op["name"] = rng.choice(BAD_NAMES)
                elif m == "none":
                    op["noneIn"] = True
                    op["annot"] = False
                else:
                    op["types"] = []
                    op["annot"] = False
            if op["gated"]:
                self.gated_facs.add((c, fid))
                self.ctxs[c].setdefault("gated", set()).add(fid)
                for ty in op["types"]:
                    self.ctxs[c].setdefault("gated_keys", set()).add((ty, op["name"]))
            return op
        if kind in ("getnw", "get"):
            c = self.pick_ctx(("open", "open", "closing"))
            if c is None:
                return None
            ty, name = rng.randrange(NT), self.name()
            if self.ctxs[c]["keys"] and rng.random() < 0.8:
                ty, name = rng.choice(self.ctxs[c]["keys"])
            gk = sorted(self.ctxs[c].get("gated_keys", ()))
            if kind == "get" and gk and self.w.get("cancelget") and rng.random() < 0.35:
                ty, name = rng.choice(gk)         # lookups piling up on a suspended factory
            op = {"op": kind, "t": t, "c": c, "ty": ty, "name": name,
                  "opt": rng.random() < 0.35, "via": self.via(t, c)}
            if kind == "get" and not op["opt"] and self.ctxs[c].get("comp"):
                op["via"] = "method"      # (a component's own get_resource() *waits* for a missing resource: C06's subject)
            if kind == "get" and rng.random() < self.p_defer and (ty, name) not in self.ctxs[c].get("gated_keys", ()):
                # the coroutine of the lookup is created now (through the context object) and awaited only later -
                # possibly after the context has been left: what counts is the state when it runs
                self.n_gets += 1
                op.update(via="method", defer=True, gid=self.n_gets)
                self.deferred.append([rng.randint(0, 8), {"op": "resume", "t": t, "c": c, "gid": self.n_gets}])
                return op
            if kind == "get" and (ty, name) in self.ctxs[c].get("gated_keys", ()):
                # may be suspended (on the factory, or waiting for a generation in flight): a candidate for `cancelget`
                self.n_gets += 1
                op["gid"] = self.n_gets
                self.ctxs[c].setdefault("sus", []).append(self.n_gets)
            return op
        if kind == "cancelget" and rng.random() < 0.5:
            # a scripted pile-up: a fresh suspended factory, one lookup running it, others waiting for that generation
            # (on either of its types), then the running one - or a waiting one - is given up
            c = self.pick_ctx(("open",))
            if c is None or self.ctxs[c]["state"] != "open":
                return None
            fid = self.next_fid
            self.next_fid += 1
            name = f"p{fid}"
            types = rng.sample(range(NT), rng.choice([1, 2]))
            first = {"op": "addf", "t": t, "c": c, "types": types, "name": name, "fid": fid, "desc": None, "async": True,
                     "gated": True, "failFirst": rng.choice([0, 0, 1]), "noneIn": False, "annot": False, "single": False,
                     "via": "method"}
            for ty in types:
                self.ctxs[c]["keys"].append((ty, name))
                self.ctxs[c].setdefault("gated_keys", set()).add((ty, name))
            self.gated_facs.add((c, fid))
            self.ctxs[c].setdefault("gated", set()).add(fid)
            if len(types) == 2 and rng.random() < 0.35:
                # … or: while the one lookup is running the factory, the pair it asked for is taken by a resource
                # added directly; the generation then finishes (the product still goes under the factory's other type)
                self.n_gets += 1
                v = self.next_val
                self.next_val += 1
                self.queue += [
                    {"op": "get", "t": t, "c": c, "ty": types[0], "name": name, "opt": False, "via": "method", "gid": self.n_gets},
                    {"op": "add", "t": t, "c": c, "types": [types[0]], "vt": types[0], "name": name, "val": v, "desc": None,
                     "badType": False, "badPos": False, "single": True, "td": None, "tdBad": False, "via": "method"},
                    {"op": "finish", "c": c, "fid": fid}]
                return first
            gids = []
            for _ in range(rng.choice([2, 3, 4])):
                self.n_gets += 1
                gids.append(self.n_gets)
                self.queue.append({"op": "get", "t": t, "c": c, "ty": rng.choice(types), "name": name,
                                   "opt": rng.random() < 0.3, "via": "method", "gid": self.n_gets})
            victim = gids[0] if rng.random() < 0.7 else rng.choice(gids[1:])
            self.queue.append({"op": "cancelget", "c": c, "gid": victim})
            self.ctxs[c].setdefault("sus", []).extend(g for g in gids if g != victim)
            return first
        if kind == "cancelget":
            cands = [(c, g) for c, x in self.ctxs.items() if x["state"] in ("open", "leaked") for g in x.get("sus", ())]
            if not cands:
                return None
            c, g = rng.choice(cands)
            many = [c2 for c2, x in self.ctxs.items() if x["state"] in ("open", "leaked") and len(x.get("sus", ())) >= 2]
            if many and rng.random() < 0.7:
                # preferably the oldest of several outstanding lookups: the one running the factory, with others waiting
                c = rng.choice(many)
                g = min(self.ctxs[c]["sus"])
            self.ctxs[c]["sus"].remove(g)
            return {"op": "cancelget", "c": c, "gid": g}
        if kind == "finish":
            cands = sorted(self.all_gated())
            if not cands:
                return None
            c, fid = rng.choice(cands)
            return {"op": "finish", "c": c, "fid": fid}
        if kind == "getall":
            c = self.pick_ctx(("open", "closed", "inactive"))
            if c is None:
                return None
            return {"op": "getall", "t": t, "c": c, "ty": rng.randrange(NT), "via": self.via(t, c)}
        if kind == "addtd":
            c = self.pick_ctx(("open",))
            if c is None:
                return None
            op = {"op": "addtd", "t": t, "c": c, "cb": self.cb(), "callable": rng.random() > self.malformed or self.ctxs[c]["state"] != "open",
                  "via": self.via(t, c)}
            self.ctxs[c].setdefault("atds", [])
            if op["callable"] and self.ctxs[c]["state"] == "open":
                # (a synchronous callback cannot be interrupted, but it can cancel the scope itself: what is still to
                # run then runs in a cancelled scope, the callback itself ends as written)
                self.ctxs[c]["atds"].append(op["cb"]["id"])
                self.ctxs[c].setdefault("atds_sync", set())
                if not op["cb"]["async"]:
                    self.ctxs[c]["atds_sync"].add(op["cb"]["id"])
            if op["via"] == "shortcut" and op["callable"] and op["cb"]["pass"] and op["cb"]["async"] and rng.random() < 0.7:
                if self.ctxs[c]["state"] == "open":
                    self.ctxs[c]["atds"].pop()
                op["via"] = "ctxtd"          # registered through @context_teardown (needs the current context)
                subs = [d for d, x in self.ctxs.items() if x["state"] == "inactive" and x["parent"] == c]
                if self.ctxs[c]["state"] == "open" and rng.random() < 0.3 and (subs or len(self.ctxs) < self.max_ctx) \
                        and not self.ctxs[c].get("comp"):
                    # … whose first half enters a sub-context by hand and keeps it open
                    first = None
                    if subs:
                        d = rng.choice(subs)
                    else:
                        d = len(self.ctxs) + 1
                        self.ctxs[d] = {"state": "inactive", "parent": c, "keys": list(self.ctxs[c]["keys"]),
                                        "gated_keys": set(self.ctxs[c].get("gated_keys", ()))}
                        first = {"op": "new", "t": t, "c": d, "parent": c}
                    op["enterSub"] = d
                    self.ctxs[d]["state"] = "leaked"
                    self.cur[t] = d
                    if first is not None:
                        self.queue.insert(0, op)
                        return first
            if op["via"] != "ctxtd" and op["callable"]:
                self.awaited_lookups(op["cb"], c)
            return op
        if kind == "current":
            return {"op": "current", "t": t}
        if kind == "parent":
            if not self.ctxs:
                return None
            return {"op": "parent", "t": t, "c": rng.choice(list(self.ctxs))}
        if kind == "state":
            if not self.ctxs:
                return None
            return {"op": "state", "t": t, "c": rng.choice(list(self.ctxs))}
        if kind == "inject" and rng.random() < self.p_pair * 0.35:
            # scripted: two tasks in two different contexts, each context with factories of its own for the same two
            # pairs (a synchronous one and an asynchronous one that really suspends); one injected coroutine function
            # with both as parameters, called by both tasks at the same time: each call gets its own context's products
            live = [(t2, c2) for t2, c2 in self.cur.items() if c2 is not None and self.ctxs[c2]["state"] == "open"
                    and not self.ctxs[c2].get("comp")]
            pairs = [(a, b) for a in live for b in live if a[0] < b[0] and a[1] != b[1]]
            if pairs:
                (t1, c1), (t2, c2) = rng.choice(pairs)
                ty0, ty1 = rng.sample(range(NT), 2)
                name = f"pp{self.next_fid}"
                for c in (c1, c2):
                    for ty, is_async in ((ty0, False), (ty1, True)):
                        fid = self.next_fid
                        self.next_fid += 1
                        self.queue.append({"op": "addf", "t": 0, "c": c, "types": [ty], "name": name, "fid": fid, "desc": None,
                                           "async": is_async, "gated": False, "failFirst": 0, "noneIn": False, "annot": False,
                                           "single": True, "via": "method"})
                        self.ctxs[c]["keys"].append((ty, name))
                self.n_pairs += 1
                deps = [{"param": "r0", "ty": ty0, "name": name, "opt": False, "form": "plain", "kind": "normal"},
                        {"param": "r1", "ty": ty1, "name": name, "opt": False, "form": "plain", "kind": "normal"}]
                op = {"op": "inject", "t": t1, "async": True, "deps": deps, "others": [], "badUnion": False, "future": False,
                      "pair": self.n_pairs, "first": True}
                self.queue += [op, {**op, "t": t2, "first": False}]
                return self.queue.pop(0)
        if kind == "inject" and self.injects and rng.random() < self.p_again:
            # a function that has been called before is called again, in whatever context is current now (a request
            # handler serving one short-lived context after the other)
            c = self.cur.get(t)
            old = rng.choice(self.injects)
            if old["async"] and self.in_comp(t):
                old = next((o for o in self.injects if not o["async"]), old)
            if not (old["async"] and c is not None and (self.in_comp(t) or any(
                    (d["ty"], d["name"]) in self.ctxs[c].get("gated_keys", ()) for d in old["deps"]))):
                import copy

                again = copy.deepcopy(old)
                again.pop("late", None)
                again["t"] = t
                return again
        if kind == "inject":
            c = self.cur.get(t)
            is_async = rng.random() < 0.5 and not self.in_comp(t)      # (same reason: an injected coroutine would wait)
            deps = []
            keys = self.ctxs[c]["keys"] if c is not None else []
            for i in range(rng.choice([1, 1, 2, 2, 3, 4])):
                ty, name = rng.randrange(NT), self.name()
                if keys and rng.random() < 0.8:
                    ty, name = rng.choice(keys)
                opt = rng.random() < 0.4
                deps.append({"param": f"r{i}", "ty": ty, "name": name, "opt": opt,
                             "form": rng.choice(FORMS_OPT if opt else FORMS_PLAIN),
                             "kind": "normal"})
            nk = rng.randint(0, len(deps))
            for d in deps[len(deps) - nk:]:
                d["kind"] = "kwonly"
            if c is not None and is_async and any((d["ty"], d["name"]) in self.ctxs[c].get("gated_keys", ()) for d in deps):
                is_async = False      # a gated factory would suspend the call: use the sync API instead
            others = [{"name": f"x{i}", "kind": rng.choice(["normal", "kwonly"]), "has_default": rng.random() < 0.4,
                       "pass": rng.random() < 0.5} for i in range(rng.randint(0, 3))]
            op = {"op": "inject", "t": t, "async": is_async, "deps": deps, "others": others, "badUnion": False,
                  "future": rng.random() < 0.4}
            if op["future"] and rng.random() < 0.3:
                op["late"] = True       # first called before the annotated classes exist in its module (NameError), then again
            if rng.random() < 0.04:
                op["badUnion"] = True
                deps[0]["form"] = "badunion"
            elif is_async and len(deps) >= 2 and c is not None and rng.random() < self.p_pair:
                # the same injected coroutine function called concurrently by another task whose current
                # context is a different one
                others_t = [t2 for t2, c2 in self.cur.items() if t2 != t and c2 is not None and c2 != c
                            and self.ctxs[c2]["state"] == "open" and self.ctxs[c]["state"] == "open"
                            and not self.ctxs[c2].get("comp")
                            and not any((d["ty"], d["name"]) in self.ctxs[c2].get("gated_keys", ()) for d in deps)]
                if others_t:
                    self.n_pairs += 1
                    op["pair"], op["first"] = self.n_pairs, True
                    self.queue.append({**op, "t": rng.choice(others_t), "first": False})
            if "pair" not in op and not op["badUnion"]:
                self.n_fns += 1
                op["fn"] = self.n_fns
                self.injects.append(op)
            return op
        if kind == "decorate":
            ps = []
            for i in range(rng.randint(1, 4)):
                ps.append({"name": f"p{i}", "kind": rng.choice(["posonly", "normal", "normal", "kwonly"]),
                           "dflt": rng.choice(["none", "value", "marker", "marker", "uncalled"]),
                           "mname": self.name(), "annot": rng.choice(["plain", "plain", "optional", None]), "ty": rng.randrange(NT)})
            # python syntax: no-default parameters may not follow defaulted ones within posonly+normal
            seen_default = False
            for p in sorted(ps, key=lambda p: {"posonly": 0, "normal": 1, "kwonly": 2}[p["kind"]]):
                if p["kind"] != "kwonly":
                    if p["dflt"] != "none":
                        seen_default = True
                    elif seen_default:
                        p["dflt"] = "value"
            return {"op": "decorate", "t": t, "future": rng.random() < 0.4, "params": [{**p, "annot": p["annot"]} for p in ps]}
        if kind == "spawn":
            if len(self.stacks) >= self.max_tasks:
                return None
            t2 = len(self.stacks)
            self.stacks[t2] = []
            self.cur[t2] = self.cur.get(t)
            return {"op": "spawn", "t": t, "t2": t2}
        return None

    def all_gated(self) -> set[tuple[int, int]]:
        """(ctx, fid) pairs on which a gated generation may be pending: the factory's own
        context and every context created below it."""
        out = set()
        for c, x in self.ctxs.items():
            a: int | None = c
            seen = set()
            while a is not None and a not in seen:
                seen.add(a)
                for fid in self.ctxs[a].get("gated", ()):
                    out.add((c, fid))
                a = self.ctxs[a]["parent"]
        return out

    def exit_op(self, t: int) -> dict[str, Any]:
        rng = self.rng
        c = self.stacks[t].pop()
        x = self.ctxs[c]
        x["state"] = "closed"
        self.cur[t] = x.get("token")
        end = self.exc() if rng.random() < self.exc_end else {"k": "ret"}
        if rng.random() < self.p_cancel:
            end = {"k": "cancelled"}        # the block is cancelled (cancel scope around it)
        op = {"op": "exit", "t": t, "c": c, "end": end}
        if end["k"] != "cancelled" and x.get("atds") and rng.random() < self.p_mid:
            # the scope around the block is cancelled while the teardown is already running: during this
            # (directly registered) callback - an asynchronous one is waiting when it happens, a synchronous one does it
            # itself
            op["cancelAt"] = rng.choice(x["atds"])
        return op

    def generate(self, n: int) -> list[dict[str, Any]]:
        ops: list[dict[str, Any]] = []
        tries = 0
        while len(ops) < n and tries < n * 10:
            tries += 1
            if self.queue:
                ops.append(self.queue.pop(0))
                continue
            op = self.gen_op()
            if op is not None:
                ops.append(op)
                for d in self.deferred:
                    d[0] -= 1
                for d in [d for d in self.deferred if d[0] < 0 and self.rng.random() < 0.7]:
                    self.deferred.remove(d)
                    self.queue.append(d[1])
                if op["op"] in ("getnw", "get", "inject", "addtd", "add") and self.rng.random() < self.p_cur_after:
                    # whatever the operation did (a factory that ran or failed, a generator's first half, …), the
                    # task's current context afterwards is what it was before
                    self.queue.append({"op": "current", "t": op.get("t", 0)})
        ops += self.queue
        ops += self.closing_ops()
        ops += [d[1] for d in self.deferred]        # … the rest only after every block has been left
        if self.p_forget:
            ops = self.mark_forgotten(ops)
        # every async lookup gets its own label (suspended lookups are reported under it)
        for i, op in enumerate(ops):
            if op["op"] == "get":
                op["lid"] = 1000 + i
        # a cancelled lookup is named by its label
        lid_of = {op["gid"]: op["lid"] for op in ops if op["op"] == "get" and "gid" in op}
        for op in ops:
            if op["op"] in ("cancelget", "resume"):
                op["lid"] = lid_of.get(op.pop("gid"), 999)
        return ops

    def mark_forgotten(self, ops: list[dict[str, Any]]) -> list[dict[str, Any]]:
        """Contexts nobody refers to any more after their block has been left are dropped by the harness too (`forget`):
        their memory is free for the next context, as with one short-lived context after the other."""
        gone: set[int] = set()
        for i, op in enumerate(ops):
            if op["op"] != "exit" or self.rng.random() >= self.p_forget:
                continue
            c = op["c"]
            later = ops[i + 1:]
            if any(x.get("parent") == c for x in self.ctxs.values()):
                continue
            entered = next((n for n, o in enumerate(ops[:i]) if o["op"] == "enter" and o.get("c") == c), 0)
            if any(o["op"] == "spawn" for o in ops[entered:i]):
                continue        # a task spawned meanwhile may have inherited c as its current context
            if any((o.get("c") == c and o["op"] != "state") or o.get("parent") == c or o.get("enterSub") == c for o in later):
                continue
            op["forget"] = True
            gone.add(c)
        return [o for n, o in enumerate(ops) if not (o["op"] == "state" and o.get("c") in gone and
                                                     any(p["op"] == "exit" and p.get("forget") and p["c"] == o["c"] for p in ops[:n]))]

    def closing_ops(self) -> list[dict[str, Any]]:
        """Release every gate (twice: a failed generation may have been retried by a waiter),
        then leave all blocks, innermost first."""
        ops: list[dict[str, Any]] = []
        for _ in range(3):
            for c, fid in sorted(self.all_gated()):
                ops.append({"op": "finish", "c": c, "fid": fid})
        # a final observation of every open context: whatever happened must have left each pair
        # resolving to what it resolved to before
        for c, x in sorted(self.ctxs.items()):
            if x["state"] == "open":
                for ty in range(NT):
                    ops.append({"op": "getall", "t": 0, "c": c, "ty": ty, "via": "method"})
        for t in sorted(self.stacks):
            while self.stacks[t]:
                ops.append(self.exit_op(t))
        for c in sorted(self.ctxs):
            ops.append({"op": "state", "t": 0, "c": c})
        return ops


def realias(ops: list[dict[str, Any]]) -> list[dict[str, Any]]:
    """Publications made through the module-level functions from the start() of a component deployed as "frame/alt"
    under the name "default" are published as "alt" (C14's rule); nothing else is renamed - lookups in particular."""
    aliased = {op["c"] for op in ops if op["op"] == "enter" and op.get("comp") == "alias"}
    return [({**op, "name": "alt"} if op["op"] in ("add", "addf") and op.get("via") == "shortcut" and op.get("c") in aliased
             and op.get("name") == "default" else op) for op in ops]


def undefer(ops: list[dict[str, Any]]) -> list[dict[str, Any]]:
    """Same length: a lookup whose coroutine is only created (`defer`) becomes a no-op answering ok, the `resume`
    that awaits it becomes the lookup itself (made at that point); a `resume` without its lookup answers badOp."""
    gets = {op["lid"]: op for op in ops if op["op"] == "get" and op.get("defer")}
    seen: set[int] = set()
    out = []
    for op in ops:
        if op["op"] == "get" and op.get("defer"):
            seen.add(op["lid"])
            out.append({"op": "noop", "want": ["ok"]})
        elif op["op"] == "resume":
            g = gets.get(op["lid"])
            if g is None or op["lid"] not in seen:
                out.append({"op": "noop", "want": ["badOp"]})
            else:
                seen.discard(op["lid"])
                out.append({k: v for k, v in g.items() if k != "defer"})
        else:
            out.append(op)
    return out


def resolve_reraise(ops: list[dict[str, Any]]) -> list[dict[str, Any]]:
    """Callbacks that re-raise the exception they are handed: with the whole operation list known, what they raise
    is the way their context's block ends (blocks still open at the end are left normally). Returns the list with
    `raises` filled in accordingly; the implementation side keeps the `reraise` flag."""
    import copy

    ends: dict[int, dict[str, Any]] = {}
    for op in ops:
        if op["op"] == "exit" and op["c"] not in ends:
            ends[op["c"]] = op["end"]

    def fix(cb: dict[str, Any], c: int) -> None:
        if cb.get("reraise") and cb["pass"]:
            end = ends.get(c, {"k": "ret"})
            cb["raises"] = None if end["k"] == "ret" else dict(end)
        for r in cb["regs"]:
            fix(r, c)

    out = copy.deepcopy(ops)
    for op in out:
        for key in ("cb", "td"):
            if isinstance(op.get(key), dict):
                fix(op[key], op["c"])
    return out


def valid_ops(ops: list[dict[str, Any]]) -> bool:
    """Is this operation list one the director can execute faithfully (used by the shrinker)?"""
    ctxs: dict[int, dict[str, Any]] = {}
    stacks: dict[int, list[int]] = {0: []}
    cur: dict[int, int | None] = {0: None}
    forgotten: set[int] = set()
    for n, op in enumerate(ops):
        k = op["op"]
        t = op.get("t", 0)
        if op.get("c") in forgotten or op.get("parent") in forgotten or op.get("enterSub") in forgotten:
            return False
        if k == "exit" and op.get("forget"):
            forgotten.add(op["c"])
        if k not in ("finish", "cancelget", "resume") and t not in stacks:
            return False
        if k == "enter" and op.get("pre"):
            nxt = ops[n + 1] if n + 1 < len(ops) else {}
            if not (nxt.get("op") == "exit" and nxt.get("c") == op.get("c") and nxt.get("t", 0) == t
                    and nxt["end"]["k"] == "cancelled"):
                return False
        c = op.get("c")
        if k == "new":
            if c in ctxs:
                return False
            p = op.get("parent")
            if p is not None:
                if p not in ctxs or (ctxs[p]["parent"] is None and ctxs[p]["state"] == "inactive"):
                    return False
            ctxs[c] = {"state": "inactive", "parent": p if p is not None else cur[t]}
            continue
        if k == "spawn":
            if op["t2"] in stacks:
                return False
            stacks[op["t2"]] = []
            cur[op["t2"]] = cur[t]
            continue
        if k == "inject" and op.get("first"):
            nxt = ops[n + 1] if n + 1 < len(ops) else {}
            if nxt.get("pair") == op.get("pair") and nxt.get("op") == "inject":
                t2 = nxt.get("t", 0)
                if t2 not in cur or cur[t] is None or cur[t2] is None or cur[t] == cur[t2]:
                    return False
        if k in ("current", "inject", "decorate"):
            continue
        if k == "finish":
            if c not in ctxs:
                return False
            continue
        if c not in ctxs:
            return False
        if op.get("via") in ("shortcut", "ctxtd") and cur[t] != c:
            return False
        if k == "addtd" and op.get("enterSub") is not None:
            d = op["enterSub"]
            if op.get("via") != "ctxtd" or d not in ctxs or ctxs[d]["state"] != "inactive" or ctxs[d]["parent"] != c \
                    or ctxs[c]["state"] != "open":
                return False
            ctxs[d]["state"] = "leaked"
            cur[t] = d
        if k == "enter":
            if op.get("manual"):
                if ctxs[c]["state"] != "inactive" or ctxs[c]["parent"] is None:
                    return False
                ctxs[c]["state"] = "leaked"
                cur[t] = c
            elif ctxs[c]["state"] == "inactive":
                ctxs[c]["state"] = "open"
                ctxs[c]["token"] = cur[t]
                stacks[t].append(c)
                cur[t] = c
        elif k == "exit":
            if not stacks[t] or stacks[t][-1] != c:
                return False
            stacks[t].pop()
            ctxs[c]["state"] = "closed"
            cur[t] = ctxs[c]["token"]
    return all(not s for s in stacks.values())
