"""
./check <Cxx> [--tier quick|thorough] [--replay <file>]

Exit 0: property held on everything explored (KNOWN-FINDING lines possible).
Exit 1: "VIOLATION property=<id> replay=<path>[ no-failing-input-found]".
Exit 2: the machinery itself failed (never a VIOLATION line).
"""

from __future__ import annotations

import argparse
import json
import os
import random
import sys
import time
import traceback
from pathlib import Path
from typing import Any

from . import core
from .core import Infra, Prop

VERIF = core.VERIF


def load_known() -> dict[str, Any]:
    return json.loads((VERIF / "known_findings.json").read_text())


def write_replay(pid: str, payload: dict[str, Any]) -> Path:
    d = VERIF / "replays"
    d.mkdir(exist_ok=True)
    h = core.case_hash(payload.get("case", payload))
    p = d / f"{pid}-{h}.json"
    p.write_text(json.dumps(payload, indent=1, default=str))
    return p


def gen_cases(prop: Prop, seed: int, tier: str, n: int, start: int = 0) -> list[dict[str, Any]]:
    cases = []
    for idx in range(start, start + n):
        rng = random.Random(f"{seed}/{prop.id}/{idx}")
        c = prop.generate(rng, tier, idx)
        c["seed"] = seed
        c["idx"] = idx
        cases.append(c)
    return cases


def main(argv: list[str] | None = None) -> int:
    ap = argparse.ArgumentParser()
    ap.add_argument("prop")
    ap.add_argument("--tier", default=os.environ.get("VERIF_TIER", "quick"), choices=["quick", "thorough"])
    ap.add_argument("--replay")
    ap.add_argument("--cases", type=int)
    ap.add_argument("--no-lean", action="store_true", help="dev only: skip the Lean gate")
    args = ap.parse_args(argv)
    pid = args.prop.upper()
    seed = int(os.environ.get("VERIF_SEED", "0") or 0)
    t0 = time.time()
    try:
        return run(pid, args.tier, seed, args, t0)
    except Infra as e:
        print(f"INFRASTRUCTURE-FAILURE property={pid}: {e}", file=sys.stderr)
        return 2
    except Exception:
        traceback.print_exc()
        print(f"INFRASTRUCTURE-FAILURE property={pid}: harness exception", file=sys.stderr)
        return 2


def run(pid: str, tier: str, seed: int, args: argparse.Namespace, t0: float) -> int:
    prop = core._load_prop(pid)
    workers = min(os.cpu_count() or 1, 16 if tier == "thorough" else 8)

    # ---- replay mode
    if args.replay:
        payload = json.loads(Path(args.replay).read_text())
        case = payload["case"] if "case" in payload else payload
        if not args.no_lean:
            core.lake_build()
        rec = core.evaluate_one(prop, case)
        print(json.dumps({k: rec[k] for k in ("impl", "model", "disagree", "monitor")}, indent=1, default=str))
        if rec["monitor"] or rec["disagree"]:
            print(f"VIOLATION property={pid} replay={args.replay}")
            return 1
        print("replay passes on the current tree")
        return 0

    # ---- 1. Lean gate
    lean_info: dict[str, Any] = {}
    if not args.no_lean:
        lean_info["build_s"] = round(core.lake_build(clean=(tier == "thorough" and os.environ.get("VERIF_CLEAN_BUILD") == "1")), 2)
        hits = core.source_audit()
        if hits:
            raise Infra("forbidden construct in Lean sources: " + "; ".join(hits[:5]))
        axioms = core.axiom_audit(pid)
        bad = {n: a for n, a in axioms.items() if not set(a) <= core.ALLOWED_AXIOMS}
        if bad:
            raise Infra(f"theorem depends on non-standard axioms: {bad}")
        lean_info["theorems"] = axioms
        checker_cmd = "cd lean && lake build && lake env lean <#print axioms of every Cxx_ theorem>"
        if tier == "thorough":
            checker_cmd = "cd lean && lake build && " + core.leanchecker(pid)
        lean_info["checker_cmd"] = checker_cmd
    else:
        lean_info = {"theorems": {n: [] for n in core.property_theorems(pid)}, "checker_cmd": "skipped (--no-lean)"}

    # ---- 2. cases
    n = args.cases or (prop.quick_cases if tier == "quick" else prop.thorough_cases)
    corpus = prop.corpus()
    exhaustive = list(prop.exhaustive(tier))
    generated = gen_cases(prop, seed, tier, n)
    all_cases = corpus + exhaustive + generated
    records = core.evaluate(prop, all_cases, workers)

    # ---- 3. verdict
    known = load_known()
    failing = [r for r in records if r["monitor"]]
    disagreeing = [r for r in records if r["disagree"] and not r["monitor"]]
    known_lines: list[str] = []
    new_failures = []
    for r in failing:
        kid = None
        for f in r["monitor"]:
            kid = prop.known(r["case"], r["impl"], f)
            if kid is None:
                break
        if kid is not None and any(k["id"] == kid and k["property"] == pid for k in known["known"]):
            entry = next(k for k in known["known"] if k["id"] == kid)
            line = f"KNOWN-FINDING: property={pid} {entry['what']} ({kid})"
            if line not in known_lines:
                known_lines.append(line)
        else:
            new_failures.append(r)
    for line in known_lines:
        print(line)

    violation_path: Path | None = None
    suffix = ""
    if new_failures:
        rec = core.shrink_case(prop, new_failures[0])
        violation_path = write_replay(pid, {
            "property": pid, "kind": "failing-input", "seed": seed, "tier": tier,
            "case": rec["case"], "monitor_failures": rec["monitor"],
            "impl_observation": rec["impl"], "model_output": rec["model"],
            "model_vs_impl": rec["disagree"],
            "how_to_replay": f"./check {pid} --replay <this file>",
        })
    elif disagreeing:
        # broken correspondence: search harder for a concrete failing input
        found = None
        if tier == "quick":
            extra = gen_cases(prop, seed, "thorough", min(prop.thorough_cases, 4000), start=10_000_000)
            extra_recs = core.evaluate(prop, extra, min(os.cpu_count() or 1, 16))
            cand = [r for r in extra_recs if r["monitor"] and not all(prop.known(r["case"], r["impl"], f) for f in r["monitor"])]
            if cand:
                found = core.shrink_case(prop, cand[0])
        if found is not None:
            violation_path = write_replay(pid, {
                "property": pid, "kind": "failing-input", "seed": seed, "tier": tier,
                "case": found["case"], "monitor_failures": found["monitor"],
                "impl_observation": found["impl"], "model_output": found["model"],
                "model_vs_impl": found["disagree"],
            })
        else:
            rec = core.shrink_case(prop, disagreeing[0])
            violation_path = write_replay(pid, {
                "property": pid, "kind": "correspondence-broken", "seed": seed, "tier": tier,
                "what_no_longer_checks": f"correspondence between lean/AsphaltModel and /repo for {pid}: the theorems "
                                         f"{list(lean_info['theorems'])} no longer speak about this code",
                "case": rec["case"], "impl_observation": rec["impl"], "model_output": rec["model"],
                "model_vs_impl": rec["disagree"],
                "note": "no monitor failed on any explored case: no concrete failing input found",
            })
            suffix = " no-failing-input-found"

    # ---- 4. evidence
    nontriv = set()
    feats: dict[str, int] = {}
    for r in records:
        if r.get("crashed"):
            continue
        if prop.nontrivial(r["case"], r["impl"]):
            nontriv.add(core.case_hash(r["case"]))
        for f in prop.features(r["case"], r["impl"]):
            feats[f] = feats.get(f, 0) + 1
    thms = lean_info["theorems"]
    samples = [
        {"case": r["case"], "impl": r["impl"], "model": r["model"]}
        for r in (records[len(corpus) + len(exhaustive):][:2] or records[:2])
    ]
    evidence = {
        "property_id": pid,
        "tier": tier,
        "seed": seed,
        "level": "proof",
        "coverage": {
            "obligations": len(thms),
            "discharged": len(thms),
            "checker_cmd": lean_info["checker_cmd"],
            "trusted_base": core.TRUSTED_BASE,
            "theorems": {k: v for k, v in thms.items()},
            "evaluations": len(records),
            "distinct_nontrivial": len(nontriv),
            "rule": prop.rule,
            "samples": samples,
            "traces_validated_against_impl": sum(1 for r in records if r["model"] is not None),
            "disagreements_checked": len(disagreeing),
            "corpus_cases": len(corpus),
            "exhaustive_cases": len(exhaustive),
            "exhaustive": bool(exhaustive),
            "input_distribution": dict(sorted(feats.items())),
            "known_findings_seen": known_lines,
            "lean_build_s": lean_info.get("build_s"),
        },
        "assumptions": prop.assumptions,
        "wall_s": round(time.time() - t0, 2),
        "violations": (1 if violation_path else 0),
    }
    # (VERIF_EVIDENCE_DIR: development aid used together with VERIF_REPO, so that trying a seeded defect in a
    # scratch worktree does not overwrite the evidence of the run against /repo)
    evdir = type(VERIF)(os.environ["VERIF_EVIDENCE_DIR"]) if os.environ.get("VERIF_EVIDENCE_DIR") else VERIF / "evidence"
    evdir.mkdir(parents=True, exist_ok=True)
    (evdir / f"{pid}.json").write_text(json.dumps(evidence, indent=1, default=str))

    if violation_path is not None:
        rel = os.path.relpath(violation_path, VERIF)
        print(f"VIOLATION property={pid} replay={rel}{suffix}")
        return 1
    print(f"OK property={pid} tier={tier} seed={seed} theorems={len(thms)} cases={len(records)} "
          f"nontrivial={len(nontriv)} wall={evidence['wall_s']}s")
    return 0


if __name__ == "__main__":
    sys.exit(main())
