"""Base class of the properties decided on the Context kernel (mode E, output equality)."""

from __future__ import annotations

import copy
import random
from typing import Any, Iterator

from .core import Prop
from .gen_kernel import KGen


class KernelProp(Prop):
    weights: dict[str, float] = {}
    gen_kwargs: dict[str, Any] = {}
    n_ops = (8, 40)
    backends = ("asyncio", "trio")

    def make_gen(self, rng: random.Random, tier: str) -> KGen:
        return KGen(rng, self.weights, **self.gen_kwargs)

    def generate(self, rng: random.Random, tier: str, index: int) -> dict[str, Any]:
        g = self.make_gen(rng, tier)
        lo, hi = self.n_ops
        if tier == "thorough":
            hi = int(hi * 1.5)
        ops = g.generate(rng.randint(lo, hi))
        return {"kind": "ctx", "backend": self.backends[index % len(self.backends)], "ops": ops}

    def run_impl(self, case: dict[str, Any]) -> Any:
        from .impl.kernel import run_kernel_case

        return run_kernel_case(case)

    def model_request(self, case, impl):
        # the scheduler's choice of which waiter runs first after a failed generation is
        # taken from the observation (the model accepts any waiter)
        from .gen_kernel import realias, resolve_reraise, undefer

        ops = [({**op, "next": r["next"]} if "next" in r else op) for op, r in zip(undefer(realias(resolve_reraise(case["ops"]))), impl)]
        # the model's task id of an async lookup is only a label: use the lookup's own id
        ops = [({**op, "t": op["lid"]} if op["op"] == "get" and "lid" in op else op) for op in ops]
        # a child context entered by a helper task that then ends without leaving it = `new` + `enter` by a
        # task of its own
        out = []
        for op in ops:
            if op["op"] == "noop":
                continue
            if op["op"] == "leak":
                out += [{"op": "new", "t": 9000 + op["c"], "c": op["c"], "parent": op["parent"]},
                        {"op": "enter", "t": 9000 + op["c"], "c": op["c"]}]
            elif op["op"] == "addtd" and op.get("enterSub") is not None:
                # the first half of the @context_teardown generator enters a sub-context by hand (which stays
                # current), then the second half is registered - on the context the function was called in
                out += [{"op": "enter", "t": op["t"], "c": op["enterSub"], "manual": True},
                        {k: v for k, v in op.items() if k != "enterSub"}]
            else:
                out.append(op)
        return {"kind": "ctx", "ops": out}

    def compare(self, case, impl, model):
        from .gen_kernel import undefer

        mo = list(model["out"])
        merged = []
        for op in undefer(case["ops"]):
            if op["op"] == "noop":
                merged.append({"res": op["want"], "ev": []})
            elif (op["op"] == "leak" or (op["op"] == "addtd" and op.get("enterSub") is not None)) and len(mo) >= 2:
                a, b = mo.pop(0), mo.pop(0)
                merged.append({"res": a["res"] + b["res"], "ev": a["ev"] + b["ev"]})
            elif mo:
                merged.append(mo.pop(0))
        mo = merged
        if len(mo) != len(impl):
            return f"model answered {len(mo)} steps, implementation {len(impl)}"
        for i, (m, r) in enumerate(zip(mo, impl)):
            if [canon_all(x) for x in m["res"]] != sorted_tasks(r["res"]) or [canon_ev(e) for e in m["ev"]] != r["ev"]:
                return (f"step {i} {case['ops'][i]}: model {m} vs implementation {r}")
        return None

    tags: tuple[str, ...] = ()

    def monitor(self, case, impl):
        from .monitors_kernel import monitor_case

        fails = monitor_case(case, impl)
        out = []
        for tag, msg in fails:
            if tag in self.tags or tag == "HARNESS":
                m = f"[{tag}] {msg}"
                if m not in out:
                    out.append(m)
        return out

    def features(self, case, impl):
        f = set()
        for op, r in zip(case["ops"], impl):
            for s in r["res"]:
                head = s.split(" ")[0]
                f.add(f"{op['op']}:{head}")
            if r["ev"]:
                f.add("event")
            # how the operation was made (the counts say how often each route was exercised)
            if op["op"] == "enter" and op.get("comp"):
                f.add("frame:component" + ("_aliased" if op["comp"] == "alias" else ""))
            if op.get("via") == "shortcut" and op["op"] in ("add", "addf", "getnw", "get", "addtd", "getall"):
                f.add("via:module_level_function")
            if op.get("via") == "ctxtd":
                f.add("via:context_teardown")
            for flag, name in (("defer", "lookup:coroutine_awaited_later"), ("forget", "context:dropped_after_exit"),
                               ("cancelAt", "exit:cancelled_during_teardown"), ("pre", "enter:under_pending_cancellation"),
                               ("manual", "enter:by_hand"), ("late", "inject:called_before_types_exist")):
                if op.get(flag) not in (None, False):
                    f.add(name)
            if op.get("cancelAt") is not None and any(o["op"] == "addtd" and o["cb"]["id"] == op["cancelAt"] and not o["cb"]["async"]
                                                      for o in case["ops"]):
                f.add("exit:scope_cancelled_by_a_synchronous_callback")
            if op["op"] == "inject" and "fn" in op and any(o is not op and o.get("fn") == op["fn"] for o in case["ops"]):
                f.add("inject:function_called_again")
        f.add("backend_" + case.get("backend", "asyncio"))
        return sorted(f)

    def shrink(self, case) -> Iterator[dict[str, Any]]:
        from .gen_kernel import valid_ops

        for cand in self._shrink(case):
            if valid_ops(cand["ops"]):
                yield cand

    def _shrink(self, case) -> Iterator[dict[str, Any]]:
        ops = case["ops"]
        if any(o.get("via") in ("shortcut", "ctxtd") for o in ops):
            yield {**case, "ops": [{**o, "via": "method"} if "via" in o else o for o in ops]}
        # drop single ops (from the end first: later ops depend on earlier ones)
        for i in reversed(range(len(ops))):
            yield {**case, "ops": ops[:i] + ops[i + 1:]}
        # simplify callbacks and flags
        for i, op in enumerate(ops):
            for key in ("td", "cb"):
                cb = op.get(key)
                if isinstance(cb, dict):
                    for s in _shrink_cb(cb):
                        if op.get("via") == "ctxtd" and not s["async"]:
                            continue        # the tail of a @context_teardown generator always suspends
                        o2 = copy.deepcopy(op)
                        o2[key] = s
                        yield {**case, "ops": ops[:i] + [o2] + ops[i + 1:]}
            if op.get("td") is not None and op["op"] == "add":
                yield {**case, "ops": ops[:i] + [{**op, "td": None}] + ops[i + 1:]}
            if op["op"] == "exit" and op["end"]["k"] != "ret":
                yield {**case, "ops": ops[:i] + [{**op, "end": {"k": "ret"}}] + ops[i + 1:]}
            if op.get("types") and len(op["types"]) > 1:
                yield {**case, "ops": ops[:i] + [{**op, "types": op["types"][:-1]}] + ops[i + 1:]}
        if case.get("backend") == "trio":
            yield {**case, "backend": "asyncio"}


def _shrink_cb(cb: dict[str, Any]) -> Iterator[dict[str, Any]]:
    for i in range(len(cb["regs"])):
        yield {**cb, "regs": cb["regs"][:i] + cb["regs"][i + 1:]}
    for i in range(len(cb["body"])):
        yield {**cb, "body": cb["body"][:i] + cb["body"][i + 1:]}
    if cb["raises"] is not None:
        yield {**cb, "raises": None}
    if cb["async"]:
        yield {**cb, "async": False}
    for i, r in enumerate(cb["regs"]):
        for s in _shrink_cb(r):
            yield {**cb, "regs": cb["regs"][:i] + [s] + cb["regs"][i + 1:]}


def op_kinds(case: dict[str, Any]) -> list[str]:
    return [o["op"] for o in case["ops"]]


from .monitors_kernel import canon_ev  # noqa: E402


def sorted_tasks(res: list[str]) -> list[str]:
    res = [canon_all(r) for r in res]
    return [r for r in res if not r.startswith("task ")] + sorted(r for r in res if r.startswith("task "))


def canon_all(r: str) -> str:
    """get_resources() returns a mapping: the order of its items is nobody's promise. Neither is the class an invalid
    argument is rejected with (the model says typeError / valueError as the code does today)."""
    if r in ("typeError", "valueError"):
        return "argError"
    if r.startswith("all [") and r.endswith("]"):
        body = r[5:-1]
        return "all [" + ", ".join(sorted(body.split(", "))) + "]" if body else r
    return r
