"""
Replays of the preliminary findings listed in DESIGN.md section 9, against the
asphalt working tree in /repo (run: PYTHONPATH=/repo/src /venv/bin/python findings/preliminary_repro.py).

This is not part of the checking machinery; it only makes the design document's
claims about the unchanged tree reproducible.  Each finding prints
"<id> REPRODUCED" (the property is violated on this tree) or "<id> not reproduced".
"""

from __future__ import annotations

import copy
import sys
import warnings
from dataclasses import dataclass

import anyio

from asphalt.core import (
    Component,
    Context,
    Event,
    Signal,
    add_resource,
    get_resource,
    start_component,
    stream_events,
)

results: dict[str, bool] = {}


class A:
    pass


class B:
    pass


async def d1_async_generated_leaks_into_child() -> None:
    # C04 (also C02): a resource generated through the *async* lookup API is
    # inherited by contexts created afterwards
    async with Context() as ctx:

        async def factory() -> object:
            return object()

        ctx.add_resource_factory(factory, types=[object])
        parent_obj = await ctx.get_resource(object)
        async with Context() as child:
            child_obj = await child.get_resource(object)
            results["D1"] = child_obj is parent_obj


async def d2_racing_lookups_generate_twice() -> None:
    # C04/C03: two lookups racing on an async factory call it twice; the object
    # handed to the first caller is later replaced
    async with Context() as ctx:
        calls = []

        async def factory() -> object:
            calls.append(1)
            await anyio.sleep(0.01)
            return object()

        ctx.add_resource_factory(factory, types=[object])
        got: list[object] = []

        async def look() -> None:
            got.append(await ctx.get_resource(object))

        async with anyio.create_task_group() as tg:
            tg.start_soon(look)
            tg.start_soon(look)

        later = await ctx.get_resource(object)
        results["D2"] = len(calls) != 1 or got[0] is not got[1] or later is not got[0]


async def d3_generation_replaces_existing_resource() -> None:
    # C03/C04: a multi-type factory generating into a context that already
    # holds one of its types replaces the object already handed out
    async with Context() as ctx:
        b = B()
        ctx.add_resource(b, types=[B])
        ctx.add_resource_factory(lambda: A(), types=[A, B])
        first = ctx.get_resource_nowait(B)
        ctx.get_resource_nowait(A)
        second = ctx.get_resource_nowait(B)
        results["D3"] = first is b and second is not b


async def d4_signals_of_one_instance_collapse() -> None:
    # C11 (and C10): all Signal attributes of one instance share one channel
    @dataclass
    class EvA(Event):
        pass

    @dataclass
    class EvB(Event):
        pass

    class Source:
        sig_a = Signal(EvA)
        sig_b = Signal(EvB)

    src = Source()
    same = src.sig_a is src.sig_b
    try:
        src.sig_b.dispatch(EvB())
        rejected = False
    except TypeError:
        rejected = True

    received = []
    src2 = Source()
    async with stream_events([src2.sig_a, src2.sig_b]) as stream:
        src2.sig_a.dispatch(EvA())
        with anyio.move_on_after(0.05):
            async for event in stream:
                received.append(event)

    results["D4"] = same or rejected or len(received) != 1


async def d5_failed_add_leaves_resource() -> None:
    # C03: add_resource() raising because of an invalid teardown callback
    # leaves the resource registered
    async with Context() as ctx:
        try:
            ctx.add_resource("x", "n1", teardown_callback="not callable")  # type: ignore[arg-type]
        except TypeError:
            pass

        results["D5"] = ctx.get_resource_nowait(str, "n1", optional=True) is not None


async def d6_lost_wakeup_on_queue_overflow() -> None:
    # C06: a waiter misses the matching publication when more than 51
    # publications happen before it gets to run
    class Waiter(Component):
        async def start(self) -> None:
            await get_resource(float, "target")

    class Publisher(Component):
        async def start(self) -> None:
            await anyio.sleep(0.01)
            for i in range(60):
                add_resource(i, f"r{i}")

            add_resource(1.5, "target")

    class Root(Component):
        def __init__(self) -> None:
            self.add_component("w", Waiter)
            self.add_component("p", Publisher)

    import logging

    logging.getLogger("asphalt.core").setLevel(logging.CRITICAL)
    with warnings.catch_warnings():
        warnings.simplefilter("ignore")
        try:
            async with Context():
                await start_component(Root, {}, timeout=0.5)
            results["D6"] = False
        except TimeoutError:
            results["D6"] = True


async def d7_config_object_modified() -> None:
    # C14: start_component() strips "type"/"components" out of the nested
    # dictionaries of the configuration it was given; reuse then fails
    class Child(Component):
        def __init__(self, **kwargs: object) -> None:
            pass

    config = {"components": {"extra": {"type": Child, "z": 9}}}
    before = copy.deepcopy(config)
    async with Context():
        await start_component(Component, config)

    reuse_failed = False
    try:
        async with Context():
            await start_component(Component, config)
    except LookupError:
        reuse_failed = True

    results["D7"] = config != before or reuse_failed


async def d9_zero_timeout_disables_watchdog() -> None:
    # C07 (boundary): timeout=0 is treated like timeout=None, so a startup that
    # does not finish within 0 seconds is never interrupted
    class Stall(Component):
        async def start(self) -> None:
            await anyio.sleep(0.2)

    try:
        with anyio.fail_after(1):
            async with Context():
                await start_component(Stall, {}, timeout=0)
        results["D9"] = True
    except TimeoutError:
        results["D9"] = False


def d8_equal_instances_share_channel() -> None:
    # C11: instances comparing equal (custom __eq__/__hash__) share one bound signal
    class Valued:
        sig = Signal(Event)

        def __init__(self, v: int) -> None:
            self.v = v

        def __eq__(self, other: object) -> bool:
            return isinstance(other, Valued) and other.v == self.v

        def __hash__(self) -> int:
            return hash(self.v)

    first, second = Valued(1), Valued(1)  # both alive at the same time
    results["D8"] = first.sig is second.sig


def main() -> None:
    backend = sys.argv[1] if len(sys.argv) > 1 else "asyncio"
    for func in (
        d1_async_generated_leaks_into_child,
        d2_racing_lookups_generate_twice,
        d3_generation_replaces_existing_resource,
        d4_signals_of_one_instance_collapse,
        d5_failed_add_leaves_resource,
        d6_lost_wakeup_on_queue_overflow,
        d7_config_object_modified,
        d9_zero_timeout_disables_watchdog,
    ):
        anyio.run(func, backend=backend)

    d8_equal_instances_share_channel()
    for key in sorted(results):
        print(key, "REPRODUCED" if results[key] else "not reproduced")


if __name__ == "__main__":
    main()
